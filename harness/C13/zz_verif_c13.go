package zzverif

import (
	"context"
	"io"

	"github.com/a-h/templ"
)

type Kid struct {
	Wrap  int
	Block bool
	Tag   string
	Inner *Spec
	Once  *templ.OnceHandle
}

type Spec struct{ Kids []Kid }

// FuncIgnore is a hand-written component that ignores its children.
func FuncIgnore(tag string) templ.Component {
	return templ.ComponentFunc(func(ctx context.Context, w io.Writer) error {
		_, err := io.WriteString(w, "<fi>"+tag+"</fi>")
		return err
	})
}

// FuncSlot is a hand-written component that renders its children the documented way.
func FuncSlot(tag string) templ.Component {
	return templ.ComponentFunc(func(ctx context.Context, w io.Writer) error {
		if _, err := io.WriteString(w, "<fs>"+tag+":"); err != nil {
			return err
		}
		children := templ.GetChildren(ctx)
		ctx = templ.ClearChildren(ctx)
		if err := children.Render(ctx, w); err != nil {
			return err
		}
		_, err := io.WriteString(w, "</fs>")
		return err
	})
}

// FuncBuffered is a hand-written component that renders its children into a scratch buffer
// of its own and then copies the result out (a component that post-processes its children).
func FuncBuffered(tag string) templ.Component {
	return templ.ComponentFunc(func(ctx context.Context, w io.Writer) error {
		children := templ.GetChildren(ctx)
		ctx = templ.ClearChildren(ctx)
		scratch := &vrec{}
		if err := children.Render(ctx, scratch); err != nil {
			return err
		}
		_, err := io.WriteString(w, "<fb>"+tag+":"+string(scratch.b)+"</fb>")
		return err
	})
}

type vrec struct{ b []byte }

func (r *vrec) Write(p []byte) (int, error) {
	r.b = append(r.b, p...)
	return len(p), nil
}

const nWraps = 10

var tagNames = []string{"a", "b", "c", "d", "e", "f", "g", "h", "i", "j", "k", "l"}

type builder struct {
	next   int
	leakFn bool // a block is passed to Once, Flush or a function component that ignores it
}

// build makes a symbolic call tree: fan-out and depth bounded by parameters.
func (b *builder) build(depth int) *Spec {
	s := &Spec{}
	fan := symParam("FAN")
	if depth < symParam("DEPTH") {
		fan = symParam("FAN2")
	}
	n := symChoose(fan + 1)
	for i := 0; i < n; i++ {
		id := tagNames[b.next%len(tagNames)]
		// callee kind and block flag are symbolic: the branches of the generated code (and of
		// the reference) on them are decided by the solver
		k := Kid{Wrap: symInt("wrap_" + id), Tag: id}
		symAssume(k.Wrap >= 0 && k.Wrap < nWraps)
		b.next++
		k.Block = symBool("block_" + id)
		if k.Wrap == 7 {
			symAssume(!k.Block)
		}
		if k.Wrap == 3 {
			k.Once = templ.NewOnceHandle()
		}
		if k.Wrap == 8 {
			// a handle with its own component: a slot-bearing component called without a block
			k.Once = templ.NewOnceHandle(templ.WithComponent(Slot(id)))
		}
		if (k.Wrap == 3 || k.Wrap == 4 || k.Wrap == 5 || k.Wrap == 8) && k.Block {
			b.leakFn = true // a hand-written callee that does not consume the shared slot
		}
		if k.Block {
			if depth > 1 {
				k.Inner = b.build(depth - 1)
			} else {
				k.Inner = &Spec{}
			}
		}
		s.Kids = append(s.Kids, k)
	}
	return s
}

// ref is the reference renderer: children are lexically scoped - a callee gets the block
// written at its call site, or nothing.
//
// Blocks are rendered each time their slot is rendered (a callee repeating its slot renders
// the block twice), and a once handle renders at most once per render.
func ref(s *Spec) string { return refWith(s, map[*templ.OnceHandle]bool{}) }

func refWith(s *Spec, seen map[*templ.OnceHandle]bool) string {
	out := "<n>"
	for _, k := range s.Kids {
		blk := func() string {
			if !k.Block {
				return ""
			}
			return "<b>" + k.Tag + "</b>" + refWith(k.Inner, seen)
		}
		switch k.Wrap {
		case 0:
			out += "<s>" + k.Tag + ":" + blk() + "</s>"
		case 1:
			out += "<g>" + k.Tag + "</g>"
		case 2:
			first := blk()
			out += "<t>" + first + "|" + blk() + "</t>"
		case 3:
			if !seen[k.Once] {
				seen[k.Once] = true
				out += blk()
			}
		case 4:
			out += blk() // flush renders its block
		case 5:
			out += "<fi>" + k.Tag + "</fi>"
		case 6:
			out += "<fs>" + k.Tag + ":" + blk() + "</fs>"
		case 7:
			out += "<s>" + k.Tag + ":</s><g>" + k.Tag + "</g>"
		case 8:
			if !seen[k.Once] {
				seen[k.Once] = true
				out += "<s>" + k.Tag + ":</s>" // the handle's own component, called without a block
			}
		case 9:
			out += "<fb>" + k.Tag + ":" + blk() + "</fb>"
		}
	}
	return out + "</n>"
}

// ---- model of the known defect (used only to recognise it, never as the oracle) ----
//
// Children travel in one mutable slot shared by the whole render. Generated components and
// FuncSlot take the slot's content on entry and empty it; Once and Flush empty it while they
// render and put it back afterwards; a function component that ignores its children leaves
// it alone. A call with a block fills the slot just before the call.

type blockRef struct {
	tag   string
	inner *Spec
}

type slotModel struct {
	cur  *blockRef
	seen map[*templ.OnceHandle]bool
}

func (m *slotModel) block(b *blockRef) string {
	if b == nil {
		return ""
	}
	return "<b>" + b.tag + "</b>" + m.tree(b.inner)
}

func (m *slotModel) tree(s *Spec) string {
	m.cur = nil // generated component entry: take and clear (Tree has no slot)
	out := "<n>"
	for _, k := range s.Kids {
		if k.Block {
			m.cur = &blockRef{k.Tag, k.Inner}
		}
		switch k.Wrap {
		case 0:
			own := m.cur
			m.cur = nil
			out += "<s>" + k.Tag + ":" + m.block(own) + "</s>"
		case 1:
			m.cur = nil
			out += "<g>" + k.Tag + "</g>"
		case 2:
			own := m.cur
			m.cur = nil
			out += "<t>" + m.block(own) + "|" + m.block(own) + "</t>"
		case 3:
			if !m.seen[k.Once] {
				m.seen[k.Once] = true
				saved := m.cur
				m.cur = nil
				out += m.block(saved)
				m.cur = saved
			}
		case 4:
			saved := m.cur
			m.cur = nil
			out += m.block(saved)
			m.cur = saved
		case 5:
			out += "<fi>" + k.Tag + "</fi>"
		case 6:
			own := m.cur
			m.cur = nil
			out += "<fs>" + k.Tag + ":" + m.block(own) + "</fs>"
		case 7:
			own := m.cur
			m.cur = nil
			out += "<s>" + k.Tag + ":" + m.block(own) + "</s>"
			m.cur = nil
			out += "<g>" + k.Tag + "</g>"
		case 8:
			if !m.seen[k.Once] {
				m.seen[k.Once] = true
				saved := m.cur
				m.cur = nil
				out += "<s>" + k.Tag + ":</s>"
				m.cur = saved
			}
		case 9:
			own := m.cur
			m.cur = nil
			out += "<fb>" + k.Tag + ":" + m.block(own) + "</fb>"
		}
	}
	return out + "</n>"
}

func VerifC13Tree() {
	b := &builder{}
	spec := b.build(symParam("DEPTH"))
	w := &vrec{}
	err := Tree(spec).Render(context.Background(), w)
	symAssert(err == nil, "render returns nil")
	symCover("tree")
	// known finding (while listed): a hand-written function component that ignores its
	// children leaves the block in the shared context for the next block-less sibling
	model := &slotModel{seen: map[*templ.OnceHandle]bool{}}
	symKnown("C13-unconsumed-block-leaks-to-later-blockless-call", b.leakFn && string(w.b) == model.tree(spec))
	symAssertEq(string(w.b), ref(spec), "every callee receives exactly the block of its own call site")
}

// VerifC13FlushPlainWriter: templ.Flush() rendered by hand-written Go code into a writer that
// cannot be flushed: the block given to Flush must not reach a block-less slot component that
// is rendered inside it through a non-generated layer (Join).
func VerifC13FlushPlainWriter() {
	inner := templ.Join(Slot("a"), Ignore("b"))
	w := &vrec{}
	var dst io.Writer = w
	if symBool("flushable") {
		dst = &flushRec{vrec: w}
	}
	err := templ.Flush().Render(templ.WithChildren(context.Background(), inner), dst)
	symAssert(err == nil, "render returns nil")
	symCover("flush-plain")
	symAssertEq(string(w.b), "<s>a:</s><g>b</g>", "the flush block is rendered once and is not handed to the slot component inside it")
}

type flushRec struct {
	*vrec
	flushed int
}

func (f *flushRec) Flush() { f.flushed++ }


// layerRef: what a layer renders given the block written at its call site (lexical scoping).
func layerRef(kind int, tag, block string) string {
	switch kind {
	case 0:
		return "<s>" + tag + ":" + block + "</s>"
	case 1:
		return "<s>" + tag + ":<nav></nav>" + block + "</s>"
	case 2:
		return "<s>" + tag + ":<b>nav</b></s><s>" + tag + ":</s><main>" + block + "</main>"
	}
	return "<s>" + tag + ":</s><s>" + tag + ":<b>nav</b></s><main>" + block + "</main>"
}

// VerifC13Layers: generated layers between a caller and a slot component - a layer whose block
// is nothing but its own children slot (pure pass-through), one that adds markup, layouts that
// call a slot component with a block and without one before rendering their own slot - nested
// in each other, with and without blocks at the call sites.
func VerifC13Layers() {
	outer, inner := symInt("outer"), symInt("inner")
	symAssume(outer >= 0 && outer < 4 && inner >= 0 && inner < 4)
	ob, ib := symBool("outerBlock"), symBool("innerBlock")
	w := &vrec{}
	err := Layers(outer, inner, ob, ib).Render(context.Background(), w)
	symAssert(err == nil, "render returns nil")
	symCover("layers")
	want := layerRef(outer, "o", "")
	if ob {
		in := layerRef(inner, "i", "")
		if ib {
			in = layerRef(inner, "i", "<u>x</u>")
		}
		want = layerRef(outer, "o", "<i>o</i> "+in) // the line break after an inline element is a space
	}
	symAssertEq(string(w.b), want, "every layer hands exactly the block of its own call site to the slot it wraps, and nothing to the others")
}
