package templ

import "github.com/a-h/templ/safehtml"

type verifBrand string

// VerifC05Generic: the generic templ.SanitizeCSS wrapper used by css components routes every
// string-typed value except SafeCSSProperty through the sanitiser (whose guarantees are
// decided by the safehtml runs), and always sanitises the property name.
func VerifC05Generic() {
	prop := []string{"color", "background-image", "font-family", "x y"}[symChoose(4)]
	v := symString("v", symParam("N"))
	p2, v2 := safehtml.SanitizeCSS(prop, v)
	want := SafeCSS(p2 + ":" + v2 + ";")
	symCover("generic")
	switch symChoose(3) {
	case 0:
		symAssert(SanitizeCSS(prop, v) == want, "string values are sanitised")
	case 1:
		symAssert(SanitizeCSS(prop, verifBrand(v)) == want, "values of application-defined string types are sanitised like strings")
	case 2:
		got := SanitizeCSS(prop, SafeCSSProperty(v))
		symAssert(got == SafeCSS(safehtml.SanitizeCSSProperty(prop)+":"+v+";"), "SafeCSSProperty values are trusted by type, the property name is still sanitised")
	}
}
