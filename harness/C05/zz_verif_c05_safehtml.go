package safehtml

var verifC05Props = []string{"background-image", "font-family", "display", "color", "margin", "Z-INDEX"}

// VerifC05Value: one (property, value) pair through SanitizeCSS, per property class.
func VerifC05Value() {
	pi := symChoose(len(verifC05Props))
	prop := verifC05Props[pi]
	v := symString("v", symParam("N"))
	p2, v2 := SanitizeCSS(prop, v)
	symObserve("p", p2)
	symObserve("v", v2)
	symCover("sanitized")
	if p2 == InnocuousPropertyName {
		symAssert(false, "a valid property name is never replaced")
		return
	}
	symAssert(verifCSSNameOK(p2), "property name is made of letters and '-' only")
	symAssert(symOr(v2 == InnocuousPropertyValue, verifCSSValueOK(v2)), "value stays inside its declaration: no terminator, block, comment, foreign function, bad string/url, '<', or url with a scheme other than http/https/mailto")
}

// VerifC05Name: an arbitrary property name.
func VerifC05Name() {
	p := symString("p", symParam("P"))
	v := symString("v", symParam("N"))
	p2, v2 := SanitizeCSS(p, v)
	symObserve("p", p2)
	symObserve("v", v2)
	symCover("named")
	symAssert(verifCSSNameOK(p2), "property name is made of letters and '-' only (or the innocuous name)")
	symAssert(symOr(v2 == InnocuousPropertyValue, verifCSSValueOK(v2)), "value stays inside its declaration")
}

// verifCSSUnescapeString decodes the contents of a CSS <string-token> (escapes only).
func verifCSSUnescapeString(s string) (string, bool) {
	out := make([]byte, 0, len(s))
	for i := 0; i < len(s); {
		c := s[i]
		if c != '\\' {
			out = append(out, c)
			i++
			continue
		}
		i++
		if i >= len(s) {
			return "", false
		}
		r, n := 0, 0
		for n < 6 && i < len(s) && verifCSSHex[s[i]] >= 0 {
			r = r*16 + int(verifCSSHex[s[i]])
			i++
			n++
		}
		if n == 0 {
			if s[i] == '\n' {
				i++
				continue
			}
			out = append(out, s[i])
			i++
			continue
		}
		if i < len(s) && (s[i] == ' ' || s[i] == '\t' || s[i] == '\n') {
			i++ // a single whitespace after a hex escape is consumed
		}
		switch {
		case r == 0 || r > 0x10FFFF || (r >= 0xD800 && r <= 0xDFFF):
			out = append(out, 0xEF, 0xBF, 0xBD)
		case r < 0x80:
			out = append(out, byte(r))
		case r < 0x800:
			out = append(out, byte(0xC0|r>>6), byte(0x80|r&0x3F))
		case r < 0x10000:
			out = append(out, byte(0xE0|r>>12), byte(0x80|(r>>6)&0x3F), byte(0x80|r&0x3F))
		default:
			out = append(out, byte(0xF0|r>>18), byte(0x80|(r>>12)&0x3F), byte(0x80|(r>>6)&0x3F), byte(0x80|r&0x3F))
		}
	}
	return string(out), true
}

var verifCSSHex = func() (t [256]int8) {
	for i := range t {
		t[i] = -1
	}
	for c := '0'; c <= '9'; c++ {
		t[c] = int8(c - '0')
	}
	for c := 'a'; c <= 'f'; c++ {
		t[c] = int8(c-'a') + 10
		t[c-32] = int8(c-'a') + 10
	}
	return
}()

// verifC05ToValid mirrors what "for _, c := range s" does to invalid UTF-8 (U+FFFD per bad
// byte) and the documented NUL -> U+FFFD replacement.
func verifC05ToValid(s string) string {
	out := make([]byte, 0, len(s)+8)
	for _, c := range s {
		if c == 0 {
			c = 0xFFFD
		}
		out = append(out, string(c)...)
	}
	return string(out)
}

// VerifC05StringToken: SanitizeStyleValue(s) between double quotes is one <string-token>
// whose value is s.
func VerifC05StringToken() {
	s := symString("s", symParam("N"))
	o := SanitizeStyleValue(s)
	symObserve("o", o)
	symCover("stringtoken")
	// "o" followed by the end of the declaration: the automaton must leave the string exactly
	// at the closing quote the author wrote
	symAssert(verifCSSRun(cssInDQ, o+"\""), "string token: ends exactly at the author's closing quote")
	_, ok := verifCSSUnescapeString(o)
	symAssert(ok, "string token: escapes are well formed")
}

// VerifC05Framed: the symbolic bytes sit inside the shapes the list-valued sanitisers parse,
// so that short bounds reach url("..."), quoted font names and comma lists.
func VerifC05Framed() {
	frame := symChoose(6)
	s := symString("s", symParam("N"))
	prop, v := "background-image", ""
	switch frame {
	case 0:
		v = "url(" + s + ")"
	case 1:
		v = "url(\"" + s + "\")"
	case 2:
		v = "url('" + s + "')"
	case 3:
		v = "url(a)," + s
	case 4:
		prop, v = "font-family", "\""+s+"\""
	case 5:
		prop, v = "font-family", "serif,"+s
	}
	p2, v2 := SanitizeCSS(prop, v)
	symObserve("v", v2)
	symCover("framed")
	symAssert(p2 == prop, "property name unchanged")
	symAssert(symOr(v2 == InnocuousPropertyValue, verifCSSValueOK(v2)), "framed value stays inside its declaration")
}
