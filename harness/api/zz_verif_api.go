package PKGNAME

// Harness API. Under symgo every sym* function is intercepted by name and these bodies never
// run. Compiled natively (replay and differential validation) they read the concrete case
// selected by the generated test driver.

import (
	"fmt"
	"os"
	"path/filepath"
	"time"
)

type verifObs struct {
	Label string `json:"label"`
	Val   string `json:"val"`
}

type verifCase struct {
	Entry   string            `json:"entry"`
	Params  map[string]int64  `json:"params"`
	Strs    map[string][]byte `json:"strs"`
	Ints    map[string]uint64 `json:"ints"`
	Choices []uint64          `json:"choices"`
	Obs     []verifObs        `json:"obs"`
	End     string            `json:"end"`
	Msg     string            `json:"msg"`
}

type verifAssertFailed struct{ msg string }
type verifAssumeFailed struct{}

var (
	verifCur    *verifCase
	verifGot    []verifObs
	verifChoice int
)

func symString(name string, max int) string {
	b := verifCur.Strs[name]
	if len(b) > max {
		panic(fmt.Sprintf("verif: case string %s longer than bound %d", name, max))
	}
	return string(b)
}
func symBytes(name string, max int) []byte { return []byte(symString(name, max)) }
func symByte(name string) byte             { return byte(verifCur.Ints[name]) }
func symBool(name string) bool             { return verifCur.Ints[name] != 0 }
func symInt(name string) int               { return int(int64(verifCur.Ints[name])) }
func symInt64(name string) int64           { return int64(verifCur.Ints[name]) }
func symUint64(name string) uint64         { return verifCur.Ints[name] }
func symInt32(name string) int32           { return int32(uint32(verifCur.Ints[name])) }
func symUint32(name string) uint32         { return uint32(verifCur.Ints[name]) }
func symParam(name string) int {
	v, ok := verifCur.Params[name]
	if !ok {
		panic("verif: parameter " + name + " not set")
	}
	return int(v)
}
func symAssume(ok bool) {
	if !ok {
		panic(verifAssumeFailed{})
	}
}
func symAssert(ok bool, msg string) {
	if !ok {
		panic(verifAssertFailed{msg})
	}
}
func symCover(label string)         {}
func symKnown(id string, pred bool) {}
func symObserve(label string, v string) {
	verifGot = append(verifGot, verifObs{label, fmt.Sprintf("%q", v)})
}
func symObserveInt(label string, v int) {
	verifGot = append(verifGot, verifObs{label, fmt.Sprint(uint64(v))})
}
func symObserveBool(label string, v bool) {
	verifGot = append(verifGot, verifObs{label, fmt.Sprint(v)})
}
func symChoose(n int) int {
	if verifChoice >= len(verifCur.Choices) {
		panic("verif: more symChoose calls than recorded choices")
	}
	v := int(verifCur.Choices[verifChoice])
	verifChoice++
	return v
}

// Non-forking Boolean connectives: under symgo they build one term instead of branching
// (Go's && and || compile to control flow, which forks on symbolic operands).
func symAnd(a, b bool) bool { return a && b }
func symOr(a, b bool) bool  { return a || b }
func symNot(a bool) bool    { return !a }
func symIteInt(c bool, a, b int) int {
	if c {
		return a
	}
	return b
}

// symDFAAccepts runs a table-driven automaton (trans[state*nc+class[b]]) over s from start
// and reports accept[final] != 0. Under symgo it is simulated one-hot over the symbolic bytes
// (a Boolean circuit, no forks, no bit-vector arithmetic); natively it is this loop.
func symDFAAccepts(trans []uint8, nc int, class []uint8, start uint8, s string, accept []uint8) bool {
	st := start
	for i := 0; i < len(s); i++ {
		st = trans[int(st)*nc+int(class[s[i]])]
	}
	return accept[st] != 0
}

// symAssertEq asserts got == want; the native failure message carries both values.
func symAssertEq(got, want string, msg string) {
	if got != want {
		verifDetail = fmt.Sprintf("got %q want %q", got, want)
		panic(verifAssertFailed{msg})
	}
}

var verifDetail string

// symQuiesce lets every other goroutine run until none can make progress and returns how
// many are still blocked. Natively it can only wait a little; the count is then unknown (0).
func symQuiesce() int {
	time.Sleep(150 * time.Millisecond) // several yields long
	return 0
}

// symNative reports whether the harness runs natively (replay / differential validation) rather
// than under the engine. symNativeRepeat(n) is n natively and 1 under the engine: a native replay
// cannot force an interleaving, so a racy scenario is attempted n times.
func symNative() bool            { return true }
func symNativeRepeat(n int) int  { return n }

// symYield is a scheduling point for the calling goroutine.
func symYield() { verifSleep() }

func verifSleep() { time.Sleep(20 * time.Millisecond) }

// symSetFile / symGetFile: a file the code under test reads or writes. Under symgo a virtual
// file system; natively real files.
func symSetFile(path, content string) {
	os.MkdirAll(filepath.Dir(path), 0o755)
	if err := os.WriteFile(path, []byte(content), 0o644); err != nil {
		panic("verif: cannot write " + path + ": " + err.Error())
	}
}

// symRemoveFile removes a file or link if it exists.
func symRemoveFile(path string) { os.Remove(path) }

// symSetSymlink makes path a symbolic link to target (a file-level link).
func symSetSymlink(path, target string) {
	os.MkdirAll(filepath.Dir(path), 0o755)
	os.Remove(path)
	if err := os.Symlink(target, path); err != nil {
		panic("verif: cannot link " + path + ": " + err.Error())
	}
}

// symAdvanceClock lets ns nanoseconds pass. Under symgo the virtual clock behind time.Now, time.Since
// and file modification times advances by the (possibly symbolic) amount; natively it sleeps.
func symAdvanceClock(ns int64) { time.Sleep(time.Duration(ns)) }

func symGetFile(path string) (string, bool) {
	b, err := os.ReadFile(path)
	return string(b), err == nil
}
