package PKGNAME

import (
	"time"
	"encoding/json"
	"fmt"
	"os"
	"testing"
)

// TestVerifReplay runs the cases in $VERIF_CASES against the natively compiled real code and
// prints one line per case: what happened, and whether it matches the engine's prediction.
func TestVerifReplay(t *testing.T) {
	entries := map[string]func(){
		ENTRIES
	}
	data, err := os.ReadFile(os.Getenv("VERIF_CASES"))
	if err != nil {
		t.Fatal(err)
	}
	var cases []verifCase
	if err := json.Unmarshal(data, &cases); err != nil {
		t.Fatal(err)
	}
	for i := range cases {
		c := &cases[i]
		fn := entries[c.Entry]
		if fn == nil {
			t.Fatalf("no entry %s", c.Entry)
		}
		end, msg := verifRunCase(c, fn)
		status := "MATCH"
		if end != c.End || (c.End == "assert" && msg != c.Msg) {
			status = "MISMATCH"
		}
		if end == "ok" && c.End == "ok" {
			if len(verifGot) != len(c.Obs) {
				status = "MISMATCH"
				msg = fmt.Sprintf("observation count %d vs predicted %d", len(verifGot), len(c.Obs))
			} else {
				for k := range verifGot {
					if verifGot[k] != c.Obs[k] {
						status = "MISMATCH"
						msg = fmt.Sprintf("observation %s: native %s predicted %s", verifGot[k].Label, verifGot[k].Val, c.Obs[k].Val)
						break
					}
				}
			}
		}
		fmt.Printf("VERIF-CASE %d %s native=%s predicted=%s msg=%q detail=%s\n", i, status, end, c.End, msg, verifDetail)
	}
}

func verifRunCase(c *verifCase, fn func()) (end, msg string) {
	verifCur = c
	verifGot = nil
	verifDetail = ""
	verifChoice = 0
	defer func() {
		if r := recover(); r != nil {
			switch r := r.(type) {
			case verifAssertFailed:
				end, msg = "assert", r.msg
			case verifAssumeFailed:
				end, msg = "assume", "assumption false under the model"
			default:
				end, msg = "panic", fmt.Sprint(r)
			}
		}
	}()
	if c.End == "timeout" {
		// predicted not to terminate: run it on the side and give it ten seconds
		done := make(chan [2]string, 1)
		go func() {
			e, m := "ok", ""
			defer func() {
				if r := recover(); r != nil {
					e, m = "panic", fmt.Sprint(r)
				}
				done <- [2]string{e, m}
			}()
			fn()
		}()
		select {
		case r := <-done:
			return r[0], r[1]
		case <-time.After(10 * time.Second):
			return "timeout", c.Msg
		}
	}
	fn()
	return "ok", ""
}
