package zzverif

import (
	"context"
	"strconv"

	"github.com/a-h/templ"
)

type vrec struct{ b []byte }

func (r *vrec) Write(p []byte) (int, error) {
	r.b = append(r.b, p...)
	return len(p), nil
}

// esc is the reference HTML escaper used by the denotations (independent of templ's).
func esc(s string) string {
	out := make([]byte, 0, len(s)+8)
	for i := 0; i < len(s); i++ {
		switch s[i] {
		case '&':
			out = append(out, "&amp;"...)
		case '<':
			out = append(out, "&lt;"...)
		case '>':
			out = append(out, "&gt;"...)
		case '"':
			out = append(out, "&#34;"...)
		case '\'':
			out = append(out, "&#39;"...)
		default:
			out = append(out, s[i])
		}
	}
	return string(out)
}

func render(c templ.Component) (string, error) {
	w := &vrec{}
	err := c.Render(context.Background(), w)
	return string(w.b), err
}

func check(c templ.Component, want, what string) {
	got, err := render(c)
	symAssert(err == nil, what+": Render returns nil")
	symAssertEq(got, want, what+": rendered bytes equal the denotation")
}

// seg is one piece of a denotation: literal bytes, or optional spaces (positions where the
// statement allows source whitespace to be kept, normalised to spaces, or dropped).
type seg struct {
	opt bool
	s   string
}

func lit(s string) seg { return seg{s: s} }

var opt = seg{opt: true}

func matchFrom(got string, pos int, pat []seg) bool {
	if len(pat) == 0 {
		return pos == len(got)
	}
	p := pat[0]
	if p.opt {
		without := matchFrom(got, pos, pat[1:])
		if pos < len(got) {
			return symOr(symAnd(got[pos] == ' ', matchFrom(got, pos+1, pat)), without)
		}
		return without
	}
	if pos+len(p.s) > len(got) {
		return false
	}
	return symAnd(got[pos:pos+len(p.s)] == p.s, matchFrom(got, pos+len(p.s), pat[1:]))
}

func checkPat(c templ.Component, what string, pat ...seg) {
	got, err := render(c)
	symAssert(err == nil, what+": Render returns nil")
	symObserve("html", got)
	symAssert(matchFrom(got, 0, pat), what+": rendered bytes equal the denotation (optional spaces only where the statement allows)")
}

// verifFiller: a run of plain letters whose length is chosen around the size of the render
// buffer (runtime.Buffer wraps a bufio.Writer of the default 4096 bytes), so that a value may be
// shorter than, exactly as long as, or longer than what the buffer holds.
func verifFiller() string {
	n := []int{0, 4094, 4096, 4097, 9000}[symChoose(5)]
	b := make([]byte, n)
	for i := range b {
		b[i] = 'x'
	}
	return string(b)
}

func VerifC02Cond() {
	a, b := symBool("a"), symBool("b")
	s := verifFiller() + symString("s", symParam("N"))
	want := "<div>"
	switch {
	case a:
		want += "<b>" + esc(s) + "</b>"
	case b:
		want += "<i>" + esc(s) + "</i>"
	default:
		want += "<u>x</u>"
	}
	want += "</div>"
	symCover("cond")
	check(Cond(a, b, s), want, "if/else-if/else")
}

func symStrings(name string, maxLen, n int) []string {
	k := symChoose(maxLen + 1)
	out := make([]string, k)
	for i := range out {
		out[i] = symString(name+strconv.Itoa(i), n)
	}
	return out
}

func VerifC02Loop() {
	items := symStrings("it", symParam("L"), symParam("N"))
	want := "<ul>"
	for i, it := range items {
		want += "<li id=\"" + strconv.Itoa(i) + "\">" + esc(it) + "</li>"
	}
	want += "</ul>"
	symCover("loop")
	check(Loop(items), want, "for")
}

func VerifC02Switch() {
	s := symString("s", symParam("N"))
	n := symInt("n")
	want := ""
	switch s {
	case "a":
		want += "<a>A</a>"
	case "b", "c":
		want += "<b>BC</b>"
	case "d", "e":
		// cases without content render nothing (and do not fall into default)
	default:
		want += "<c>" + esc(s) + "</c>"
	}
	tail := ""
	if n > 1 {
		tail = "<p>many</p>"
	} else if n == 1 {
		tail = "<p>one</p>"
	}
	symCover("switch")
	// an inline element followed, after a line break, by a switch that renders a block
	// element or nothing: the separating whitespace may be kept as one space or dropped
	checkPat(Switch(s, n), "switch", lit(want), opt, lit(tail))
}

func VerifC02Attrs() {
	s := verifFiller() + symString("s", symParam("N"))
	c, d, e := symBool("c"), symBool("d"), symBool("e")
	k1, k2 := symBool("k1"), symBool("k2")
	m := templ.Attributes{"data-k": s, "kv": templ.KV(k1, k2), "on": e}
	want := "<input type=\"text\" value=\"" + esc(s) + "\""
	if c {
		want += " disabled"
	}
	if d {
		want += " class=\"x\""
	} else {
		want += " class=\"y\""
	}
	want += " data-k=\"" + esc(s) + "\""
	if k1 && k2 {
		want += " kv"
	}
	if e {
		want += " on"
	}
	want += "><br><hr>"
	symCover("attrs")
	check(Attrs(s, c, d, m), want, "attributes")
}

func VerifC02Calls() {
	a := symBool("a")
	s := symString("s", symParam("N"))
	want := "<section><h1>" + esc(s) + "</h1><p>" + esc(s) + "</p>"
	if a {
		want += "<em>in</em>"
	}
	want += "</section><em>out</em><section><h1>empty</h1></section>"
	symCover("calls")
	check(Calls(a, s), want, "component calls and children")
}

func VerifC02Nested() {
	nrows := symChoose(symParam("R") + 1)
	rows := make([]Row, nrows)
	var pat []seg
	want := ""
	for i := range rows {
		sfx := strconv.Itoa(i)
		rows[i].Show = symBool("show" + sfx)
		rows[i].Title = symString("t"+sfx, symParam("N"))
		rows[i].Cells = symStrings("c"+sfx+"_", symParam("L"), symParam("N"))
		if rows[i].Show {
			want += "<section><h1>" + esc(rows[i].Title) + "</h1>"
			for _, c := range rows[i].Cells {
				want += "<td>" + esc(c) + "</td>"
			}
			want += "</section>"
		} else {
			// comment, line break, omitted Go comment, line break, block element
			pat = append(pat, lit(want+"<!-- hidden -->"), opt)
			want = "<tr hidden></tr>"
		}
	}
	pat = append(pat, lit(want))
	symCover("nested")
	checkPat(Nested(rows), "for > if > call > for", pat...)
}

type tracer struct {
	log   []byte
	conds map[string]bool
	ns    map[string]int
}

func (t *tracer) s(id string) string { t.log = append(t.log, id...); return id }
func (t *tracer) c(id string) bool   { t.log = append(t.log, id...); return t.conds[id] }
func (t *tracer) n(id string) int    { t.log = append(t.log, id...); return t.ns[id] }

func VerifC02Trace() {
	a, b := symBool("a"), symBool("b")
	n := symChoose(3)
	t := &tracer{conds: map[string]bool{"a": a, "b": b}, ns: map[string]int{"n": n}}
	// every neighbour pair here is inline content separated by a line break: exactly one space
	want, log := "<x>1 ", "1a"
	if a {
		want += "2 "
		log += "2"
	} else {
		log += "b"
		if b {
			want += "3 "
			log += "3"
		}
	}
	log += "n"
	for i := 0; i < n; i++ {
		want += "4 "
		log += "4n"
	}
	want += "<y z=\"5\"></y> 6</x>"
	log += "56"
	symCover("trace")
	check(Trace(t), want, "evaluation")
	symAssertEq(string(t.log), log, "expressions are evaluated exactly where control flow reaches them, in source order")
}

func VerifC02Doc() {
	s := symString("s", symParam("N"))
	want := "<!doctype html><html><head><title>" + esc(s) + "</title><style>\n\t\t\t\tp { color: red; }\n\t\t\t</style><script>\n\t\t\t\tvar a = \"<b>\";\n\t\t\t</script></head><body><p>" + esc(s) + "!</p></body></html>"
	symCover("doc")
	check(Doc(s), want, "doctype, raw elements, Go code")
}

// VerifC02Whitespace: the whitespace matrix (ws.templ, generated by tools/gen_ws_matrix.py).
func VerifC02Whitespace() {
	c := wsCases[symChoose(len(wsCases))]
	s := symString("s", symParam("N"))
	t := symBool("t")
	var one []string
	if symChoose(2) == 1 {
		one = []string{symString("v", symParam("N"))}
	}
	l, r := c.l(s, t, one), c.r(s, t, one)
	pat := []seg{lit("<p>"), opt, lit(l)}
	switch {
	case c.gap == 0:
		// no gap in the source: nothing may be invented between the two renderings
	case c.lInline && c.rInline && len(l) > 0 && len(r) > 0:
		// both rendered neighbours are inline content and the source separates them:
		// the separation must survive (as spaces only)
		pat = append(pat, lit(" "), opt)
	default:
		pat = append(pat, opt)
	}
	pat = append(pat, lit(r), opt, lit("</p>"))
	symCover("ws")
	checkPat(c.mk(s, t, one), "whitespace "+c.name, pat...)
}

func VerifC02Handlers() {
	on := symBool("on")
	msg := symString("msg", symParam("N"))
	cs, bye := logEvt(msg), byeEvt(msg)
	cls := boxed("1px")
	// the scripts of both branches are defined in front of the element, whichever is taken
	want := "<style type=\"text/css\">" + string(cls.(templ.ComponentCSSClass).Class) + "</style>" +
		"<script>" + cs.Function + bye.Function + "</script><button "
	if on {
		want += "onclick=\"" + cs.Call
	} else {
		want += "onmouseover=\"" + bye.Call
	}
	want += "\" class=\"" + cls.ClassName() + " plain\">b</button>"
	// second use in the same render: the definition is not repeated, the call is
	cls2 := boxed("2px")
	tail := "<i onclick=\"" + cs.Call + "\">again</i>"
	tail2 := "<style type=\"text/css\">" + string(cls2.(templ.ComponentCSSClass).Class) + "</style><b class=\"btn " + cls2.ClassName() + " large\">c</b>"
	symCover("handlers")
	checkPat(Handlers(on, msg), "script and css hoisting", lit(want), opt, lit(tail), opt, lit(tail2))
}

func VerifC02Literals() {
	s := symString("s", symParam("N"))
	symCover("literals")
	check(Literals(s), "<p>&lt;b&gt;&amp;"+esc(s)+"</p><q>a\ufeffb</q>", "literal text expressions and special characters in static text")
}
