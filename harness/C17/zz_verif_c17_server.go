package proxy

import (
	"context"
	"io"
	"log/slog"

	lsp "github.com/a-h/templ/lsp/protocol"
)

// verifTarget stands for gopls: it records nothing and accepts everything.
type verifTarget struct{ lsp.Server }

func (verifTarget) DidOpen(context.Context, *lsp.DidOpenTextDocumentParams) error     { return nil }
func (verifTarget) DidChange(context.Context, *lsp.DidChangeTextDocumentParams) error { return nil }
func (verifTarget) DidClose(context.Context, *lsp.DidCloseTextDocumentParams) error   { return nil }

// verifClient stands for the editor.
type verifClient struct{ lsp.Client }

func (verifClient) PublishDiagnostics(context.Context, *lsp.PublishDiagnosticsParams) error {
	return nil
}

var verifServerTexts = []string{
	"package p\n\ntempl a() {\n\t<p>x</p>\n}\n", // parses
	"package p\n\ntempl a() {\n\t<p>x\n}\n",     // does not parse (unclosed element)
	"",                                          // empty buffer
}

// VerifC17Server: the notifications as the server handles them - didOpen with text that may
// not parse, then didChange with incremental edits: the server's copy follows the editor.
func VerifC17Server() {
	s := NewServer(slog.New(slog.NewTextHandler(io.Discard, nil)), verifTarget{}, NewSourceMapCache(), NewDiagnosticCache(), true)
	ctx := lsp.WithClient(context.Background(), verifClient{})
	uri := lsp.DocumentURI("file:///w/x.templ")
	text := verifServerTexts[symChoose(len(verifServerTexts))]
	if symBool("reopen") {
		// an earlier version of the document was opened before (and not closed)
		err := s.DidOpen(ctx, &lsp.DidOpenTextDocumentParams{TextDocument: lsp.TextDocumentItem{URI: uri, Text: "package old\n"}})
		symAssert(err == nil, "didOpen accepted")
	}
	err := s.DidOpen(ctx, &lsp.DidOpenTextDocumentParams{TextDocument: lsp.TextDocumentItem{URI: uri, Text: text}})
	symAssert(err == nil, "didOpen accepted")
	editor := text
	for k := 0; k < symParam("CHANGES"); k++ {
		with := []string{"y", "", "\n<b>"}[symChoose(3)]
		line := uint32(symChoose(5))
		col := uint32(symChoose(3))
		el, ec := line, col
		if symBool("span" + string(rune('0'+k))) {
			ec = col + 1
		}
		editor = refSplice(editor, line, col, el, ec, with)
		params := &lsp.DidChangeTextDocumentParams{
			TextDocument: lsp.VersionedTextDocumentIdentifier{TextDocumentIdentifier: lsp.TextDocumentIdentifier{URI: uri}},
			ContentChanges: []lsp.TextDocumentContentChangeEvent{{
				Range: &lsp.Range{Start: lsp.Position{Line: line, Character: col}, End: lsp.Position{Line: el, Character: ec}}, Text: with}},
		}
		err = s.DidChange(ctx, params)
		symAssert(err == nil, "didChange accepted")
	}
	symCover("server")
	d, ok := s.TemplSource.Get(string(uri))
	symAssert(ok, "the server holds a copy of an opened document, whether or not it parses")
	if ok {
		symAssertEq(d.String(), editor, "after didOpen and the didChange notifications the server's copy equals the editor's text")
	}
}

// VerifC17ServerSessions: whole editing sessions against the server - document URIs as editors
// send them (also with percent-escapes), version numbers that start wherever the editor likes and
// start again after the document is closed and reopened, edits before and after reopening: the
// server's copy follows the editor throughout.
func VerifC17ServerSessions() {
	s := NewServer(slog.New(slog.NewTextHandler(io.Discard, nil)), verifTarget{}, NewSourceMapCache(), NewDiagnosticCache(), true)
	ctx := lsp.WithClient(context.Background(), verifClient{})
	uri := lsp.DocumentURI([]string{"file:///w/x.templ", "file:///w/my%20site/x.templ", "file:///c%3A/w/x.templ"}[symChoose(3)])
	texts := []string{"package p\n\ntempl a() {\n\t<p>a</p>\n}\n", "ab\ncd\n"}
	text := texts[symChoose(2)]
	ver := symInt32("firstVersion")
	symAssume(ver >= 1 && ver <= 9)
	err := s.DidOpen(ctx, &lsp.DidOpenTextDocumentParams{TextDocument: lsp.TextDocumentItem{URI: uri, Text: text, Version: ver}})
	symAssert(err == nil, "didOpen accepted")
	editor := text
	change := func(tag string) {
		line, col := uint32(symChoose(2)), uint32(symChoose(2))
		ver++
		editor = refSplice(editor, line, col, line, col, "y")
		err := s.DidChange(ctx, &lsp.DidChangeTextDocumentParams{
			TextDocument: lsp.VersionedTextDocumentIdentifier{TextDocumentIdentifier: lsp.TextDocumentIdentifier{URI: uri}, Version: ver},
			ContentChanges: []lsp.TextDocumentContentChangeEvent{{
				Range: &lsp.Range{Start: lsp.Position{Line: line, Character: col}, End: lsp.Position{Line: line, Character: col}}, Text: "y"}},
		})
		symAssert(err == nil, "didChange accepted ("+tag+")")
		d, ok := s.TemplSource.Get(string(uri))
		symAssert(ok, "the server holds a copy of the open document ("+tag+")")
		if ok {
			symAssertEq(d.String(), editor, "the server's copy equals the editor's text ("+tag+")")
		}
	}
	for k := 0; k < symParam("BEFORE"); k++ {
		change("first session")
	}
	if symBool("closeAndReopen") {
		err = s.DidClose(ctx, &lsp.DidCloseTextDocumentParams{TextDocument: lsp.TextDocumentIdentifier{URI: uri}})
		symAssert(err == nil, "didClose accepted")
		text = texts[symChoose(2)]
		err = s.DidOpen(ctx, &lsp.DidOpenTextDocumentParams{TextDocument: lsp.TextDocumentItem{URI: uri, Text: text, Version: 1}})
		symAssert(err == nil, "didOpen after didClose accepted")
		editor, ver = text, 1
		for k := 0; k < symParam("AFTER"); k++ {
			change("after reopening")
		}
	}
	symCover("sessions")
}
