package proxy

import (
	"context"
	"io"
	"log/slog"

	lsp "github.com/a-h/templ/lsp/protocol"
)

// verifTarget stands for gopls: it records nothing and accepts everything.
type verifTarget struct{ lsp.Server }

func (verifTarget) DidOpen(context.Context, *lsp.DidOpenTextDocumentParams) error     { return nil }
func (verifTarget) DidChange(context.Context, *lsp.DidChangeTextDocumentParams) error { return nil }
func (verifTarget) DidClose(context.Context, *lsp.DidCloseTextDocumentParams) error   { return nil }

// verifClient stands for the editor.
type verifClient struct{ lsp.Client }

func (verifClient) PublishDiagnostics(context.Context, *lsp.PublishDiagnosticsParams) error {
	return nil
}

var verifServerTexts = []string{
	"package p\n\ntempl a() {\n\t<p>x</p>\n}\n", // parses
	"package p\n\ntempl a() {\n\t<p>x\n}\n",     // does not parse (unclosed element)
	"",                                          // empty buffer
}

// VerifC17Server: the notifications as the server handles them - didOpen with text that may
// not parse, then didChange with incremental edits: the server's copy follows the editor.
func VerifC17Server() {
	s := NewServer(slog.New(slog.NewTextHandler(io.Discard, nil)), verifTarget{}, NewSourceMapCache(), NewDiagnosticCache(), true)
	ctx := lsp.WithClient(context.Background(), verifClient{})
	uri := lsp.DocumentURI("file:///w/x.templ")
	text := verifServerTexts[symChoose(len(verifServerTexts))]
	if symBool("reopen") {
		// an earlier version of the document was opened before (and not closed)
		err := s.DidOpen(ctx, &lsp.DidOpenTextDocumentParams{TextDocument: lsp.TextDocumentItem{URI: uri, Text: "package old\n"}})
		symAssert(err == nil, "didOpen accepted")
	}
	err := s.DidOpen(ctx, &lsp.DidOpenTextDocumentParams{TextDocument: lsp.TextDocumentItem{URI: uri, Text: text}})
	symAssert(err == nil, "didOpen accepted")
	editor := text
	for k := 0; k < symParam("CHANGES"); k++ {
		with := []string{"y", "", "\n<b>"}[symChoose(3)]
		line := uint32(symChoose(5))
		col := uint32(symChoose(3))
		el, ec := line, col
		if symBool("span" + string(rune('0'+k))) {
			ec = col + 1
		}
		editor = refSplice(editor, line, col, el, ec, with)
		params := &lsp.DidChangeTextDocumentParams{
			TextDocument: lsp.VersionedTextDocumentIdentifier{TextDocumentIdentifier: lsp.TextDocumentIdentifier{URI: uri}},
			ContentChanges: []lsp.TextDocumentContentChangeEvent{{
				Range: &lsp.Range{Start: lsp.Position{Line: line, Character: col}, End: lsp.Position{Line: el, Character: ec}}, Text: with}},
		}
		err = s.DidChange(ctx, params)
		symAssert(err == nil, "didChange accepted")
	}
	symCover("server")
	d, ok := s.TemplSource.Get(string(uri))
	symAssert(ok, "the server holds a copy of an opened document, whether or not it parses")
	if ok {
		symAssertEq(d.String(), editor, "after didOpen and the didChange notifications the server's copy equals the editor's text")
	}
}
