package proxy

import (
	lsp "github.com/a-h/templ/lsp/protocol"
)

// refSplice is the byte-splice reference: positions beyond a line or the document are
// clamped, then the text between the two offsets is replaced.
func refSplice(text string, sl, sc, el, ec uint32, with string) string {
	starts := []int{0}
	for i := 0; i < len(text); i++ {
		if text[i] == '\n' {
			starts = append(starts, i+1)
		}
	}
	lineLen := func(l int) int {
		end := len(text)
		if l+1 < len(starts) {
			end = starts[l+1] - 1
		}
		return end - starts[l]
	}
	off := func(l, c uint32) int {
		li := int(l)
		if l >= uint32(len(starts)) {
			li = len(starts) - 1
			return starts[li] + lineLen(li)
		}
		ci := int(c)
		if c > uint32(lineLen(li)) {
			ci = lineLen(li)
		}
		return starts[li] + ci
	}
	a, b := off(sl, sc), off(el, ec)
	return text[:a] + with + text[b:]
}

func symText(name string, max int) string {
	s := symString(name, max)
	for i := 0; i < len(s); i++ {
		symAssume(s[i] == 'a' || s[i] == '\n' || s[i] == '\r')
	}
	return s
}

func verifInvariant(d *Document) bool {
	if len(d.Lines) < 1 {
		return false
	}
	ok := true
	for _, l := range d.Lines {
		for i := 0; i < len(l); i++ {
			ok = ok && l[i] != '\n'
		}
	}
	return ok
}

// VerifC17Apply: one incremental edit from an arbitrary document (inductive step: the
// representation invariant is re-established, so it composes to sequences of any length).
func VerifC17Apply() {
	text := symText("doc", symParam("DOC"))
	with := symText("with", symParam("WITH"))
	sl, sc, el, ec := symUint32("sl"), symUint32("sc"), symUint32("el"), symUint32("ec")
	symAssume(sl < el || (sl == el && sc <= ec)) // LSP: start <= end
	d := NewDocument(nil, text)
	want := refSplice(text, sl, sc, el, ec, with)
	r := &lsp.Range{Start: lsp.Position{Line: sl, Character: sc}, End: lsp.Position{Line: el, Character: ec}}
	d.Apply(r, with)
	symCover("applied")
	got := d.String()
	symObserve("doc", got)
	symAssert(got == want, "document equals byte-splice reference")
	symAssert(verifInvariant(d), "representation invariant: at least one line, no line contains a newline")
}

// VerifC17Full: a full-document replacement (nil range) followed by one incremental edit.
func VerifC17Full() {
	text := symText("doc", symParam("DOC"))
	with := symText("with", symParam("DOC"))
	d := NewDocument(nil, text)
	d.Apply(nil, with)
	symCover("replaced")
	symAssert(d.String() == with, "full replace yields the new text")
	symAssert(verifInvariant(d), "representation invariant after full replace")
}

// VerifC17Two: two incremental edits in sequence from the opened document.
func VerifC17Two() {
	text := symText("doc", symParam("DOC"))
	d := NewDocument(nil, text)
	cur := text
	for k := 0; k < 2; k++ {
		suffix := string(rune('0' + k))
		with := symText("with"+suffix, symParam("WITH"))
		sl, sc, el, ec := symUint32("sl"+suffix), symUint32("sc"+suffix), symUint32("el"+suffix), symUint32("ec"+suffix)
		symAssume(sl < el || (sl == el && sc <= ec))
		cur = refSplice(cur, sl, sc, el, ec, with)
		r := &lsp.Range{Start: lsp.Position{Line: sl, Character: sc}, End: lsp.Position{Line: el, Character: ec}}
		d.Apply(r, with)
	}
	symCover("applied2")
	symAssert(d.String() == cur, "document equals reference after two edits")
}

// VerifC17Notification: a didChange notification as the server applies it - a list of
// content changes through DocumentContents.Apply: an optional full replacement (nil range,
// any text including the empty one) followed by an incremental edit.
func VerifC17Notification() {
	text := symText("doc", symParam("DOC"))
	dc := newDocumentContents(nil)
	dc.Set("u", NewDocument(nil, text))
	cur := text
	var changes []lsp.TextDocumentContentChangeEvent
	if symBool("full") {
		with := symText("full_text", symParam("DOC"))
		changes = append(changes, lsp.TextDocumentContentChangeEvent{Range: nil, Text: with})
		cur = with
	}
	with := symText("with", symParam("WITH"))
	sl, sc, el, ec := symUint32("sl"), symUint32("sc"), symUint32("el"), symUint32("ec")
	symAssume(sl < el || (sl == el && sc <= ec))
	changes = append(changes, lsp.TextDocumentContentChangeEvent{
		Range: &lsp.Range{Start: lsp.Position{Line: sl, Character: sc}, End: lsp.Position{Line: el, Character: ec}}, Text: with})
	cur = refSplice(cur, sl, sc, el, ec, with)
	d, err := dc.Apply("u", changes)
	symCover("notified")
	symAssert(err == nil, "a known document accepts changes")
	if err == nil {
		symAssert(d.String() == cur, "after a notification (optional full replacement, then an edit) the copy equals the editor's text")
	}
}
