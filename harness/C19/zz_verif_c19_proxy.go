package proxy

import (
	"context"
	"net/http"
	"strings"

	"github.com/a-h/templ/cmd/templ/generatecmd/sse"
)

type verifC19Ctx struct {
	context.Context
	done chan struct{}
}

func (c verifC19Ctx) Done() <-chan struct{} { return c.done }
func (c verifC19Ctx) Err() error {
	select {
	case <-c.done:
		return context.Canceled
	default:
		return nil
	}
}

// verifBrowser is a browser tab listening on the reload event stream.
type verifBrowser struct {
	hdr http.Header
	got []string
	ctx verifC19Ctx
}

func (c *verifBrowser) Header() http.Header { return c.hdr }
func (c *verifBrowser) WriteHeader(int)     {}
func (c *verifBrowser) Flush()              {}
func (c *verifBrowser) Write(p []byte) (int, error) {
	c.got = append(c.got, string(p))
	return len(p), nil
}

func (c *verifBrowser) reloads() int {
	n := 0
	for _, g := range c.got {
		n += strings.Count(g, "data: reload\n")
	}
	return n
}

// VerifC19ProxyBroadcast: the watch process notifies the proxy of every regeneration through
// Handler.SendSSE; a browser that stays connected receives every one of them, however closely
// they follow each other (a browser that reloaded on the first and reconnected must not miss
// the second: it would keep showing a stale page).
func VerifC19ProxyBroadcast() {
	h := &Handler{sse: sse.New()}
	c := &verifBrowser{hdr: http.Header{}, ctx: verifC19Ctx{context.Background(), make(chan struct{})}}
	go h.sse.ServeHTTP(c, (&http.Request{}).WithContext(c.ctx))
	symQuiesce()
	for i := 0; i < symParam("BROADCASTS"); i++ {
		gap := symInt64("gap" + string(rune('0'+i)))
		symAssume(gap >= 0 && gap <= 1000)
		symAdvanceClock(gap * 1000000) // 0..1000 ms since the previous broadcast
		h.SendSSE("message", "reload")
		symQuiesce()
		symAssert(c.reloads() == i+1, "every reload broadcast reaches a connected browser, also back to back")
	}
	symCover("broadcast")
	close(c.ctx.done)
	symAssert(symQuiesce() == 0, "no goroutine is left blocked forever")
}
