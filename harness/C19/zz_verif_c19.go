package sse

import (
	"context"
	"errors"
	"net/http"
	"strings"
)

type verifCtx struct {
	context.Context
	done chan struct{}
}

func (c verifCtx) Done() <-chan struct{} { return c.done }
func (c verifCtx) Err() error {
	select {
	case <-c.done:
		return context.Canceled
	default:
		return nil
	}
}

// verifClient is a browser: a recording ResponseWriter/Flusher, optionally one that stalls
// (its Write blocks until the gate is opened) after the first chunk.
type verifClient struct {
	hdr   http.Header
	got   []string
	stall bool
	gate  chan struct{}
	ctx   verifCtx
	gone  bool
	// failAt >= 0: the connection breaks - the failAt-th write and every later one fail
	failAt int
	writes int
	// opened is closed when the first bytes of the stream have been flushed to the browser
	opened     chan struct{}
	openedOnce bool
}

func (c *verifClient) Header() http.Header { return c.hdr }
func (c *verifClient) WriteHeader(int)     {}
func (c *verifClient) Flush() {
	if !c.openedOnce && c.opened != nil && len(c.got) > 0 {
		c.openedOnce = true
		close(c.opened)
		symYield() // the flush takes a moment: whoever waits for the open stream runs first
	}
}
func (c *verifClient) Write(p []byte) (int, error) {
	c.writes++
	if c.failAt >= 0 && c.writes > c.failAt {
		return 0, verifErrBroken
	}
	if c.stall && len(c.got) >= 1 {
		<-c.gate
	}
	c.got = append(c.got, string(p))
	return len(p), nil
}

var verifErrBroken = errors.New("write: broken pipe")

func verifNewClient(stall bool) *verifClient {
	return &verifClient{failAt: -1, hdr: http.Header{}, stall: stall, gate: make(chan struct{}), ctx: verifCtx{context.Background(), make(chan struct{})}}
}

func (c *verifClient) serve(h *Handler) {
	r := (&http.Request{}).WithContext(c.ctx)
	go h.ServeHTTP(c, r)
}

func (c *verifClient) disconnect() {
	if !c.gone {
		c.gone = true
		close(c.ctx.done)
	}
}

func (c *verifClient) received(data string) bool {
	for _, g := range c.got {
		if strings.Contains(g, "data: "+data+"\n") {
			return true
		}
	}
	return false
}

// VerifC19Churn: clients connecting, disconnecting and stalling at arbitrary moments around
// broadcasts never crash or deadlock the process and leave no goroutine blocked forever.
func VerifC19Churn() {
	h := New()
	n := 1 + symChoose(symParam("CLIENTS"))
	clients := make([]*verifClient, n)
	for i := range clients {
		clients[i] = verifNewClient(symBool("stall" + string(rune('0'+i))))
		clients[i].failAt = symChoose(3) - 1 // the connection never breaks / breaks at the first / at the second write
		clients[i].serve(h)
	}
	for s := 0; s < symParam("STEPS"); s++ {
		switch symChoose(3) {
		case 0:
			h.Send("message", "reload") // must return without waiting for any client
		case 1:
			clients[symChoose(n)].disconnect()
		case 2:
			symYield()
		}
	}
	symCover("churn")
	// the session ends: every client goes away, stalled ones are released
	for _, c := range clients {
		c.disconnect()
		close(c.gate)
	}
	blocked := symQuiesce()
	h.m.Lock()
	left := len(h.requests)
	h.m.Unlock()
	symAssert(left == 0, "after all clients are gone the registry is empty")
	symAssert(blocked == 0, "after all clients are gone no goroutine is left blocked forever")
}

// VerifC19Delivery: a client connected for the whole broadcast receives it, also when another
// client is stalled.
func VerifC19Delivery() {
	h := New()
	c := verifNewClient(false)
	c.serve(h)
	var other *verifClient
	if symParam("STALLED") == 1 {
		other = verifNewClient(true)
		other.serve(h)
	}
	symQuiesce() // both handlers have registered and are waiting
	h.m.Lock()
	registered := len(h.requests)
	h.m.Unlock()
	symAssert(registered >= 1, "the client is registered once its handler waits for events")
	h.Send("message", "reload")
	if symParam("TWICE") == 1 {
		h.Send("message", "again")
		symQuiesce()
		symAssert(c.received("again"), "back-to-back broadcasts are both delivered")
	}
	symQuiesce()
	symCover("delivered")
	symAssert(c.received("reload"), "a client connected during the broadcast receives the event")
	c.disconnect()
	if other != nil {
		other.disconnect()
		close(other.gate)
	}
	symAssert(symQuiesce() == 0, "no goroutine is left blocked forever")
}

// VerifC19SubscribeRace: a browser counts as connected from the moment its event stream is open
// (it has received the first bytes): a reload broadcast at any moment from then on reaches it,
// also while its handler is still in the middle of subscribing.
func VerifC19SubscribeRace() {
	h := New()
	c := verifNewClient(false)
	c.opened = make(chan struct{})
	c.serve(h)
	<-c.opened // the stream is open on the browser's side
	h.Send("message", "reload")
	symQuiesce()
	symCover("subscribed")
	symAssert(c.received("reload"), "a browser whose stream is open receives the broadcast")
	c.disconnect()
	symAssert(symQuiesce() == 0, "no goroutine is left blocked forever")
}

// VerifC19Reconnect: clients come and go between broadcasts; every client connected when a
// reload is broadcast receives it (identities must not be confused after churn).
func VerifC19Reconnect() {
	h := New()
	a, b := verifNewClient(false), verifNewClient(false)
	a.serve(h)
	symQuiesce()
	b.serve(h)
	symQuiesce()
	// one of the two leaves, a third one joins
	leaver, stayer := a, b
	if symBool("secondLeaves") {
		leaver, stayer = b, a
	}
	leaver.disconnect()
	symQuiesce()
	c := verifNewClient(false)
	c.serve(h)
	symQuiesce()
	h.Send("message", "reload")
	symQuiesce()
	symCover("reconnected")
	symAssert(stayer.received("reload"), "the client that stayed connected receives the broadcast")
	symAssert(c.received("reload"), "the client that joined after the churn receives the broadcast")
	symAssert(!leaver.received("reload"), "the client that left receives nothing")
	stayer.disconnect()
	c.disconnect()
	symAssert(symQuiesce() == 0, "no goroutine is left blocked forever")
}
