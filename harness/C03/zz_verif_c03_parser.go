package parser

import (
	"github.com/a-h/parse"
)

// Reference JavaScript lexer state after a prefix, as a table-driven automaton over the byte
// classes ' " ` \ / * newline other. States: code, inside '...', "...", `...` (each with an
// escape sub-state), after a '/' in code, line comment, block comment (and after '*' in it),
// invalid (a raw newline inside a '...'/"..." literal, a lone '/' or a '\' in code: not
// lexically meaningful without regular-expression literals, which are outside the claim).
const (
	jsCode = iota
	jsSQ
	jsSQe
	jsDQ
	jsDQe
	jsBT
	jsBTe
	jsSlash
	jsLine
	jsBlock
	jsBlockStar
	jsInvalid
	jsNStates
)

const jsNC = 8 // classes: 0 other, 1 ', 2 ", 3 `, 4 \, 5 /, 6 *, 7 newline

var (
	jsClass     [256]uint8
	jsTrans     [jsNStates * jsNC]uint8
	jsInString  [jsNStates]uint8
	jsInCode    [jsNStates]uint8
	jsAlphabet  [256]bool
	jsClassList = []byte{'a', '\'', '"', '`', '\\', '/', '*', '\n'}
)

func init() {
	for i, c := range jsClassList {
		jsClass[c] = uint8(i)
		jsAlphabet[c] = true
	}
	set := func(s, c, t int) { jsTrans[s*jsNC+c] = uint8(t) }
	for c := 0; c < jsNC; c++ {
		set(jsInvalid, c, jsInvalid)
		// code
		switch c {
		case 1:
			set(jsCode, c, jsSQ)
		case 2:
			set(jsCode, c, jsDQ)
		case 3:
			set(jsCode, c, jsBT)
		case 4:
			set(jsCode, c, jsInvalid)
		case 5:
			set(jsCode, c, jsSlash)
		default:
			set(jsCode, c, jsCode)
		}
		// after '/': only a comment opener is meaningful
		switch c {
		case 5:
			set(jsSlash, c, jsLine)
		case 6:
			set(jsSlash, c, jsBlock)
		default:
			set(jsSlash, c, jsInvalid)
		}
		// string states
		for _, q := range []struct{ st, esc, quote int }{{jsSQ, jsSQe, 1}, {jsDQ, jsDQe, 2}, {jsBT, jsBTe, 3}} {
			switch {
			case c == q.quote:
				set(q.st, c, jsCode)
			case c == 4:
				set(q.st, c, q.esc)
			case c == 7 && q.st != jsBT:
				set(q.st, c, jsInvalid)
			default:
				set(q.st, c, q.st)
			}
			set(q.esc, c, q.st)
		}
		// comments
		if c == 7 {
			set(jsLine, c, jsCode)
		} else {
			set(jsLine, c, jsLine)
		}
		if c == 6 {
			set(jsBlock, c, jsBlockStar)
			set(jsBlockStar, c, jsBlockStar)
		} else {
			set(jsBlock, c, jsBlock)
			if c == 5 {
				set(jsBlockStar, c, jsCode)
			} else {
				set(jsBlockStar, c, jsBlock)
			}
		}
	}
	jsInString[jsSQ], jsInString[jsDQ], jsInString[jsBT] = 1, 1, 1
	jsInCode[jsCode] = 1
}

// VerifC03QuoteState: the parser's tracking of the JavaScript quote state decides which
// escaper a {{ v }} expression gets; it must agree with a JavaScript lexer.
func VerifC03QuoteState() {
	pre := symString("pre", symParam("K"))
	okAlpha := true
	for i := 0; i < len(pre); i++ {
		okAlpha = symAnd(okAlpha, jsAlphabet[pre[i]])
	}
	symAssume(okAlpha)
	inString := symDFAAccepts(jsTrans[:], jsNC, jsClass[:], jsCode, pre, jsInString[:])
	inCode := symDFAAccepts(jsTrans[:], jsNC, jsClass[:], jsCode, pre, jsInCode[:])
	// the expression sits in code or inside a literal (not in a comment, not after invalid text)
	symAssume(symOr(inString, inCode))
	src := "<script>" + pre + "{{ v }}</script>"
	n, ok, err := scriptElement.Parse(parse.NewInput(src))
	if err != nil || !ok {
		symCover("rejected")
		return
	}
	se, isScript := n.(ScriptElement)
	symAssert(isScript, "a script element")
	var found *ScriptContents
	for i := range se.Contents {
		if se.Contents[i].GoCode != nil {
			found = &se.Contents[i]
			break
		}
	}
	symCover("parsed")
	symAssert(found != nil, "the Go expression is recognised in code and literal positions")
	if found == nil {
		return
	}
	symObserveBool("inside", found.InsideStringLiteral)
	symAssert(found.InsideStringLiteral == inString, "the parser's quote state equals the JavaScript lexer's at the expression")
}
