package templ

import (
	"context"
	"encoding/json"
)

type verifRecJS struct{ b []byte }

func (r *verifRecJS) Write(p []byte) (int, error) {
	r.b = append(r.b, p...)
	return len(p), nil
}

// verifAttrDecode decodes the character references of a double-quoted attribute value the
// way an HTML tokenizer does; ok=false if the value contains a raw '"' (which would end it)
// or a reference this oracle does not know.
func verifAttrDecode(s string) (string, bool) {
	out := make([]byte, 0, len(s))
	for i := 0; i < len(s); {
		c := s[i]
		if c == '"' {
			return "", false
		}
		if c != '&' {
			out = append(out, c)
			i++
			continue
		}
		rest := s[i+1:]
		matched := false
		for _, e := range [...]struct {
			n string
			v byte
		}{{"amp;", '&'}, {"lt;", '<'}, {"gt;", '>'}, {"quot;", '"'}, {"#34;", '"'}, {"#39;", '\''}, {"apos;", '\''}} {
			if len(rest) >= len(e.n) && rest[:len(e.n)] == e.n {
				out = append(out, e.v)
				i += 1 + len(e.n)
				matched = true
				break
			}
		}
		if !matched {
			if len(rest) > 0 && (rest[0] == '#' || (rest[0] >= 'a' && rest[0] <= 'z') || (rest[0] >= 'A' && rest[0] <= 'Z') || (rest[0] >= '0' && rest[0] <= '9')) {
				return "", false
			}
			out = append(out, '&')
			i++
		}
	}
	return string(out), true
}

func verifIsJSNameByte(c byte) bool {
	return c == '$' || c == '_' || c == '.' || (c >= 'a' && c <= 'z') || (c >= 'A' && c <= 'Z') || (c >= '0' && c <= '9')
}

// VerifC03Call: script-template / JS function calls in attribute and inline form.
func VerifC03Call() {
	fn := symString("fn", symParam("F"))
	v := symString("v", symParam("N"))
	b := symBool("b")
	call := SafeScript(fn, v, 7, b)
	inline := SafeScriptInline(fn, v, 7, b)
	symObserve("call", call)
	symObserve("inline", inline)
	symCover("call")
	dec, ok := verifAttrDecode(call)
	symAssert(ok, "call: the attribute form cannot end the attribute and uses only known references")
	if ok {
		symAssert(dec == inline, "call: the attribute form decodes to the inline form")
	}
	symAssert(!verifHasByte(call, '<') && !verifHasByte(call, '>') && !verifHasByte(call, '\''), "call: no raw markup characters in the attribute form")
	// inline form: name '(' json ',' json ',' json ')'
	i := 0
	for i < len(inline) && inline[i] != '(' {
		symAssert(verifIsJSNameByte(inline[i]), "call: function part consists of name characters only")
		i++
	}
	symAssert(i < len(inline), "call: has an argument list")
	if i >= len(inline) {
		return
	}
	name := inline[:i]
	symAssert(name == fn || name == "__templ_invalid_js_function_name", "call: function name is the given one or the fixed invalid-name token")
	a0, j, ok0 := verifJSONValue(inline, i+1)
	symAssert(ok0 && a0.Kind == 's' && a0.Str == verifToValidUTF8(v), "call: first argument evaluates to the string")
	if !ok0 {
		return
	}
	want := ",7,false)"
	if b {
		want = ",7,true)"
	}
	symAssert(inline[j:] == want, "call: remaining arguments and the closing parenthesis are intact")
	symAssert(verifScriptSafe(inline), "call: inline form cannot end a script element")
}

// VerifC03JSFuncCall: templ.JSFuncCall wires the same two forms into a ComponentScript.
func VerifC03JSFuncCall() {
	v := symString("v", symParam("N"))
	cs := JSFuncCall("f.g", v)
	symCover("jsfunccall")
	symAssert(cs.Call == SafeScript("f.g", v) && cs.CallInline == SafeScriptInline("f.g", v), "JSFuncCall uses the safe call forms")
	w := &verifRecJS{}
	err := cs.Render(context.Background(), w)
	symAssert(err == nil, "render ok")
	h := string(w.b)
	symAssert(h == "<script>"+cs.CallInline+"</script>", "JSFuncCall renders one script element holding the inline call")
	symAssert(verifScriptSafe(cs.CallInline), "inline call cannot end the script element")
}

// VerifC03JSONScriptBody: the body of the JSON script element.
func VerifC03JSONScriptBody() {
	v := symString("v", symParam("N"))
	shape := symChoose(2)
	var data any = v
	want := verifJSON{Kind: 's', Str: verifToValidUTF8(v)}
	if shape == 1 {
		data = map[string]any{"k": []string{v}}
		want = verifJSON{Kind: 'o', Keys: []string{"k"}, Elts: []verifJSON{{Kind: 'a', Elts: []verifJSON{want}}}}
	}
	w := &verifRecJS{}
	err := JSONScript("i", data).Render(context.Background(), w)
	symAssert(err == nil, "render ok")
	h := string(w.b)
	symObserve("html", h)
	symCover("jsonbody")
	pre := "<script id=\"i\" type=\"application/json\">"
	post := "\n</script>"
	symAssert(len(h) >= len(pre)+len(post) && h[:len(pre)] == pre && h[len(h)-len(post):] == post, "json script: framing intact")
	if len(h) < len(pre)+len(post) {
		return
	}
	body := h[len(pre) : len(h)-len(post)]
	symAssert(verifScriptSafe(body) && !verifHasByte(body, '<'), "json script: body cannot end the script element or open a comment")
	got, ok := verifJSONParse(body)
	symAssert(ok && verifJSONEq(got, want), "json script: body evaluates to the value")
}

func verifJSONEq(a, b verifJSON) bool {
	if a.Kind != b.Kind || len(a.Elts) != len(b.Elts) || len(a.Keys) != len(b.Keys) {
		return false
	}
	ok := a.Str == b.Str
	for i := range a.Keys {
		ok = ok && a.Keys[i] == b.Keys[i]
	}
	for i := range a.Elts {
		ok = ok && verifJSONEq(a.Elts[i], b.Elts[i])
	}
	return ok
}

var verifRawOK = func() (t [256]bool) {
	for c := 0x20; c < 256; c++ {
		t[c] = c != '"' && c != '\\'
	}
	return
}()

// VerifC03RawParam: an argument that is already JSON (json.RawMessage) is data only as well.
func VerifC03RawParam() {
	v := symString("v", symParam("N"))
	ok := true
	for i := 0; i < len(v); i++ {
		ok = symAnd(ok, verifRawOK[v[i]])
	}
	symAssume(ok) // "v" is a valid JSON string body without escapes
	raw := json.RawMessage("\"" + v + "\"")
	inline := SafeScriptInline("fn", raw)
	call := SafeScript("fn", raw)
	symCover("rawparam")
	symAssert(verifScriptSafe(inline) && !verifHasByte(inline, '<'), "raw JSON argument: the inline call cannot end the script element or open a comment")
	dec, dok := verifAttrDecode(call)
	symAssert(dok && dec == inline, "raw JSON argument: the attribute form decodes to the inline form")
	symAssert(len(inline) >= 4 && inline[:3] == "fn(" && inline[len(inline)-1] == ')', "raw JSON argument: call shape")
	if len(inline) >= 3 {
		a0, j, ok0 := verifJSONValue(inline, 3)
		symAssert(ok0 && j == len(inline)-1 && a0.Kind == 's' && a0.Str == v, "raw JSON argument: evaluates to the JSON value")
	}
}
