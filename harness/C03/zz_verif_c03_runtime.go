package runtime

var verifZero float64

// VerifC03InLiteral: a Go string placed inside a '...', "..." or `...` JavaScript literal.
func VerifC03InLiteral() {
	qi := symChoose(3)
	q := "'\"`"[qi]
	v := symString("v", symParam("N"))
	e, err := ScriptContentInsideStringLiteral(v)
	symAssert(err == nil, "no error for a string")
	symObserve("escaped", e)
	symCover("inliteral")
	lit := string([]byte{q}) + e + string([]byte{q})
	val, why := verifJSLiteral(lit, q)
	symAssert(why == "", "in-literal: the text is exactly one literal (not ended early, no interpolation, no raw line terminator)")
	if why == "" {
		symAssert(val == v, "in-literal: evaluating the literal yields the original string")
	}
	symAssert(verifScriptSafe(e), "in-literal: cannot end the script element or open an HTML comment")
	symAssert(!verifHasByte(e, '"') && !verifHasByte(e, '\'') && !verifHasByte(e, '&'), "in-literal: cannot end an enclosing attribute")
}

type verifShape struct {
	A string `json:"a"`
	B int    `json:"b"`
	C bool
}

type verifScore struct {
	Player  string
	Average float64
}

// VerifC03Bare: a Go value in bare position ({{ v }} outside any literal).
func VerifC03Bare() {
	shape := symChoose(7)
	v := symString("v", symParam("N"))
	var e string
	var err error
	var want verifJSON
	vv := verifToValidUTF8(v)
	switch shape {
	case 6:
		// a value with a float that JSON cannot represent next to a string: the render may fail
		// (nothing is emitted), but whatever is emitted is still data only
		f := []float64{2, verifZero / verifZero, 1 / verifZero}[symChoose(3)] // 2, NaN, +Inf
		e, err = ScriptContentOutsideStringLiteral(verifScore{Player: v, Average: f})
		if err != nil {
			symAssert(f != 2, "bare: only a value JSON cannot represent fails")
			symCover("bare-unsupported")
			return
		}
		want = verifJSON{Kind: 'o', Keys: []string{"Player", "Average"}, Elts: []verifJSON{{Kind: 's', Str: vv}, {Kind: 'n', Str: "2"}}}
	case 0:
		e, err = ScriptContentOutsideStringLiteral(v)
		want = verifJSON{Kind: 's', Str: vv}
	case 1:
		e, err = ScriptContentOutsideStringLiteral([]string{v, "k"})
		want = verifJSON{Kind: 'a', Elts: []verifJSON{{Kind: 's', Str: vv}, {Kind: 's', Str: "k"}}}
	case 2:
		e, err = ScriptContentOutsideStringLiteral(map[string]string{v: v})
		want = verifJSON{Kind: 'o', Keys: []string{vv}, Elts: []verifJSON{{Kind: 's', Str: vv}}}
	case 3:
		b := symBool("b")
		e, err = ScriptContentOutsideStringLiteral(verifShape{A: v, B: -7, C: b})
		k := byte('f')
		if b {
			k = 't'
		}
		want = verifJSON{Kind: 'o', Keys: []string{"a", "b", "C"}, Elts: []verifJSON{{Kind: 's', Str: vv}, {Kind: 'n', Str: "-7"}, {Kind: k}}}
	case 4:
		var p *string
		e, err = ScriptContentOutsideStringLiteral(p)
		want = verifJSON{Kind: 'z'}
	case 5:
		e, err = ScriptContentOutsideStringLiteral([]any{v, nil, 12})
		want = verifJSON{Kind: 'a', Elts: []verifJSON{{Kind: 's', Str: vv}, {Kind: 'z'}, {Kind: 'n', Str: "12"}}}
	}
	symAssert(err == nil, "bare: no error")
	symObserve("json", e)
	symCover("bare")
	got, ok := verifJSONParse(e)
	symAssert(ok, "bare: output is one JSON value")
	if ok {
		symAssert(verifJSONEqual(got, want), "bare: evaluates to the Go value's JSON encoding")
	}
	symAssert(!verifHasByte(e, '<') && !verifHasByte(e, '>') && !verifHasByte(e, '&'), "bare: no HTML-significant character")
	// U+2028 / U+2029 must not appear raw
	raw := false
	for i := 0; i+2 < len(e); i++ {
		raw = raw || (e[i] == 0xE2 && e[i+1] == 0x80 && (e[i+2] == 0xA8 || e[i+2] == 0xA9))
	}
	symAssert(!raw, "bare: no raw U+2028/U+2029")
}

func verifJSONEqual(a, b verifJSON) bool {
	if a.Kind != b.Kind || len(a.Elts) != len(b.Elts) || len(a.Keys) != len(b.Keys) {
		return false
	}
	ok := a.Str == b.Str
	for i := range a.Keys {
		ok = ok && a.Keys[i] == b.Keys[i]
	}
	for i := range a.Elts {
		ok = ok && verifJSONEqual(a.Elts[i], b.Elts[i])
	}
	return ok
}

type verifNamedString string

type verifTextValue struct{ s string }

func (t verifTextValue) MarshalText() ([]byte, error) { return []byte(t.s), nil }

// VerifC03InLiteralJSON: a value that is not a plain string inside a literal is the escaped JSON
// text: a slice, a named string type, a text marshaller (the last two encode as a JSON string).
func VerifC03InLiteralJSON() {
	qi := symChoose(3)
	q := "'\"`"[qi]
	v := symString("v", symParam("N"))
	var e string
	var err error
	kind := symChoose(3)
	switch kind {
	case 0:
		e, err = ScriptContentInsideStringLiteral([]string{v})
	case 1:
		e, err = ScriptContentInsideStringLiteral(verifNamedString(v))
	case 2:
		e, err = ScriptContentInsideStringLiteral(verifTextValue{v})
	}
	symAssert(err == nil, "no error")
	symCover("inliteral-json")
	lit := string([]byte{q}) + e + string([]byte{q})
	val, why := verifJSLiteral(lit, q)
	symAssert(why == "", "in-literal(json): exactly one literal (not ended early, no interpolation)")
	if why == "" {
		got, ok := verifJSONParse(val)
		if kind == 0 {
			symAssert(ok && got.Kind == 'a' && len(got.Elts) == 1 && got.Elts[0].Kind == 's' && got.Elts[0].Str == verifToValidUTF8(v), "in-literal(json): the literal's value is the JSON encoding")
		} else {
			symAssert(ok && got.Kind == 's' && got.Str == verifToValidUTF8(v), "in-literal(json): the literal's value is the JSON encoding of the string")
		}
	}
	symAssert(verifScriptSafe(e), "in-literal(json): cannot end the script element")
}

// VerifC03InLiteralConcat: two Go values next to each other, or a value followed by static
// text, inside one literal: each value is escaped on its own, so nothing a value ends with may
// combine with what follows (e.g. "$" + "{").
func VerifC03InLiteralConcat() {
	qi := symChoose(3)
	q := "'\"`"[qi]
	a := symString("a", symParam("N"))
	ea, err := ScriptContentInsideStringLiteral(a)
	symAssert(err == nil, "no error")
	var rest, restVal string
	if symBool("second") {
		b := symString("b", 1)
		eb, err2 := ScriptContentInsideStringLiteral(b)
		symAssert(err2 == nil, "no error")
		rest, restVal = eb, b
	} else {
		rest, restVal = "{x}", "{x}" // static template text written by the author
	}
	symCover("concat")
	lit := string([]byte{q}) + ea + rest + string([]byte{q})
	val, why := verifJSLiteral(lit, q)
	symAssert(why == "", "in-literal concatenation: still exactly one literal, no interpolation opened")
	if why == "" {
		symAssert(val == a+restVal, "in-literal concatenation: the literal's value is the concatenation of the values")
	}
}
