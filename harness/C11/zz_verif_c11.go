package templ

import (
	"context"
	"errors"
	"io"
	"net/http"
)

// verifRW records what an http.ResponseWriter is asked to send.
type verifRW struct {
	hdr         http.Header
	status      int    // status committed (explicitly or by the first Write)
	headerCalls int    // number of WriteHeader calls
	ctAtCommit  string // Content-Type at the moment the header was committed
	body        []byte
}

func (w *verifRW) Header() http.Header { return w.hdr }

func (w *verifRW) commit(code int) {
	if w.status == 0 {
		w.status = code
		w.ctAtCommit = w.hdr.Get("Content-Type")
	}
}

func (w *verifRW) WriteHeader(code int) {
	w.headerCalls++
	w.commit(code)
}

func (w *verifRW) Write(p []byte) (int, error) {
	w.commit(200)
	w.body = append(w.body, p...)
	return len(p), nil
}

var verifErrRender = errors.New("render failed")

// verifWrapErr wraps another error (errors.Is / errors.As see through it).
type verifWrapErr struct{ err error }

func (e verifWrapErr) Error() string { return "render: " + e.err.Error() }
func (e verifWrapErr) Unwrap() error { return e.err }

// the errors a failing component may return: its own, the context errors (a sub-operation of
// the component was cancelled or timed out while the request itself is alive), io errors,
// bare or wrapped
var verifRenderErrs = []error{
	verifErrRender,
	context.Canceled,
	verifWrapErr{context.Canceled},
	context.DeadlineExceeded,
	verifWrapErr{context.DeadlineExceeded},
	io.EOF,
	verifWrapErr{io.ErrClosedPipe},
	http.ErrAbortHandler,
}

func verifChunks(chunks []string, fail bool) Component {
	return verifChunksErr(chunks, fail, verifErrRender)
}

func verifChunksErr(chunks []string, fail bool, failWith error) Component {
	return ComponentFunc(func(ctx context.Context, w io.Writer) error {
		for _, c := range chunks {
			if _, err := io.WriteString(w, c); err != nil {
				return err
			}
		}
		if fail {
			return failWith
		}
		return nil
	})
}

func verifErrorHandler(shape int) func(r *http.Request, err error) http.Handler {
	switch shape {
	case 1:
		return func(r *http.Request, err error) http.Handler {
			return http.HandlerFunc(func(w http.ResponseWriter, r *http.Request) {
				w.WriteHeader(418)
				w.Write([]byte("E1"))
			})
		}
	case 2:
		return func(r *http.Request, err error) http.Handler {
			return http.HandlerFunc(func(w http.ResponseWriter, r *http.Request) {
				w.Write([]byte("E2"))
			})
		}
	case 3:
		return func(r *http.Request, err error) http.Handler {
			return http.HandlerFunc(func(w http.ResponseWriter, r *http.Request) {})
		}
	}
	return nil
}

func verifServe(h http.Handler) *verifRW {
	return verifServeMethod(h, "")
}

func verifServeMethod(h http.Handler, method string) *verifRW {
	w := &verifRW{hdr: http.Header{}}
	h.ServeHTTP(w, &http.Request{Method: method})
	return w
}

// verifLengthConsistent: a Content-Length header, if one is set when the header is committed,
// announces exactly the body that follows (a recorded writer does not enforce it, a real
// connection truncates or aborts).
func (w *verifRW) lengthConsistent() bool {
	cl := w.hdr.Get("Content-Length")
	if cl == "" {
		return true
	}
	n, ok := 0, len(cl) > 0
	for i := 0; i < len(cl); i++ {
		if cl[i] < '0' || cl[i] > '9' {
			ok = false
			break
		}
		n = n*10 + int(cl[i]-'0')
	}
	return ok && n == len(w.body)
}

func VerifC11Buffered() {
	k := symChoose(symParam("K") + 1)
	chunks := make([]string, k)
	doc := ""
	for i := range chunks {
		chunks[i] = symString("chunk"+string(rune('0'+i)), symParam("N"))
		doc += chunks[i]
	}
	fail := symBool("fail")
	status := symInt("status")
	symAssume(status == 0 || (status >= 100 && status <= 999))
	ct := symString("ct", symParam("CT"))
	shape := symChoose(4)
	opts := []func(*ComponentHandler){WithStatus(status), WithContentType(ct)}
	if eh := verifErrorHandler(shape); eh != nil {
		opts = append(opts, WithErrorHandler(eh))
	}
	failWith := verifRenderErrs[symChoose(len(verifRenderErrs))]
	if !fail {
		symAssume(failWith == verifErrRender)
	}
	h := Handler(verifChunksErr(chunks, fail, failWith), opts...)
	method := []string{"", "GET", "HEAD", "POST"}[symChoose(4)] // all-or-nothing whatever the request method
	w := verifServeMethod(h, method)
	symAssert(w.lengthConsistent(), "a Content-Length header announces exactly the body sent")
	symObserve("body", string(w.body))
	symObserveInt("status", w.status)
	if !fail {
		symCover("success")
		want := status
		if want == 0 {
			want = 200
		}
		symAssert(w.status == want || (w.status == 0 && len(doc) == 0 && status == 0), "success: the configured status (200 when unset)")
		symAssert(string(w.body) == doc, "success: the complete document and nothing else")
		symAssert(w.headerCalls <= 1, "success: the header is written at most once")
		if w.status != 0 {
			symAssert(w.ctAtCommit == ct, "success: the configured content type is in place when the header is committed")
		}
	} else {
		symCover("failure")
		switch shape {
		case 0:
			symAssert(w.status == 500, "failure, no handler: status 500")
			symAssert(string(w.body) == componentHandlerErrorMessage+"\n", "failure, no handler: the default message and no document byte")
			symAssert(w.ctAtCommit == "text/plain; charset=utf-8", "failure, no handler: plain-text content type")
		case 1:
			symAssert(w.status == 418 && string(w.body) == "E1" && w.headerCalls == 1, "failure: exactly what the error handler wrote (status and body)")
		case 2:
			symAssert(w.status == 200 && string(w.body) == "E2" && w.headerCalls == 0, "failure: exactly what the error handler wrote (body only)")
		case 3:
			symAssert(w.status == 0 && len(w.body) == 0 && w.headerCalls == 0, "failure: an error handler that writes nothing sends nothing")
		}
	}
	// a second request through the same pooled buffer is unaffected
	h2 := Handler(verifChunks([]string{"second"}, false))
	w2 := verifServe(h2)
	symAssert(w2.status == 200 && string(w2.body) == "second" && w2.ctAtCommit == "text/html; charset=utf-8", "a later request is unaffected by this one")
}

// VerifC11Streamed: the streaming configuration sends the same complete response on success
// (partial output on failure is its documented behaviour and is only recorded).
func VerifC11Streamed() {
	c := symString("chunk", symParam("N"))
	fail := symBool("fail")
	status := symInt("status")
	symAssume(status == 0 || (status >= 100 && status <= 999))
	h := Handler(verifChunks([]string{c, "x"}, fail), WithStatus(status), WithStreaming())
	w := verifServe(h)
	symCover("streamed")
	if !fail {
		want := status
		if want == 0 {
			want = 200
		}
		symAssert(w.status == want && string(w.body) == c+"x", "streamed success: same complete response")
	} else {
		symObserve("partial", string(w.body))
		symAssert(len(w.body) >= len(c)+1, "streamed failure: partial output is kept (documented)")
	}
}

// VerifC11BigThenNext: a large response (beyond the sizes at which buffers are typically
// treated specially) that fails or succeeds, then an ordinary request through the same pool.
func VerifC11BigThenNext() {
	size := []int{100, 4096, 5000, 65536, 70000}[symChoose(5)]
	big := make([]byte, size)
	for i := range big {
		big[i] = 'x'
	}
	tail := symString("tail", symParam("N"))
	fail := symBool("fail")
	w := verifServe(Handler(verifChunks([]string{string(big), tail}, fail)))
	symCover("big")
	if fail {
		symAssert(w.status == 500 && string(w.body) == componentHandlerErrorMessage+"\n", "a failed large render sends only the error response")
	} else {
		symAssert(w.status == 200 && len(w.body) == size+len(tail) && string(w.body[size:]) == tail, "a large document is sent completely")
	}
	w2 := verifServe(Handler(verifChunks([]string{"second"}, false)))
	symAssert(w2.status == 200 && string(w2.body) == "second", "the next request is unaffected (no bytes of the earlier response)")
}


// verifSlowRW is a ResponseWriter whose client reads slowly: Write blocks (a scheduling point)
// before the bytes are taken, as a network write does.
type verifSlowRW struct{ verifRW }

func (w *verifSlowRW) Write(p []byte) (int, error) {
	w.commit(200)
	symYield()
	w.body = append(w.body, p...)
	symYield()
	return len(p), nil
}

// VerifC11Concurrent: two requests served at the same time through the shared buffer pool, the
// clients reading slowly, one of the renders possibly failing: each client gets its own
// complete document or its own error response, under every interleaving.
func VerifC11Concurrent() {
	docA := "A" + symString("a", symParam("N"))
	docB := "B" + symString("b", symParam("N"))
	failB := symBool("failB")
	wa := &verifSlowRW{verifRW{hdr: http.Header{}}}
	wb := &verifSlowRW{verifRW{hdr: http.Header{}}}
	done := make(chan struct{}, 2)
	go func() {
		Handler(verifChunks([]string{docA}, false), WithStatus(202)).ServeHTTP(wa, &http.Request{})
		done <- struct{}{}
	}()
	go func() {
		Handler(verifChunks([]string{docB, "tail"}, failB)).ServeHTTP(wb, &http.Request{})
		done <- struct{}{}
	}()
	<-done
	<-done
	symCover("both-served")
	symAssert(wa.status == 202 && string(wa.body) == docA, "request A: its own complete document, whatever request B does meanwhile")
	if failB {
		symAssert(wb.status == 500 && string(wb.body) == componentHandlerErrorMessage+"\n", "request B: its own error response")
	} else {
		symAssert(wb.status == 200 && string(wb.body) == docB+"tail", "request B: its own complete document")
	}
}
