package generator

// VerifC09Idempotent: fmt(fmt(x)) == fmt(x) for every accepted spelling.
func VerifC09Idempotent() {
	x := verifSymbolicInput()
	f1, err := verifFormat(x)
	if err != nil {
		symCover("rejected")
		return // not an accepted template
	}
	symCover("formatted")
	symObserve("f1", f1)
	f2, err := verifFormat(f1)
	symAssert(err == nil, "the formatter's output is accepted by the parser")
	if err != nil {
		return
	}
	symKnown("C09-single-line-element-with-child-lacking-trailing-space", verifFileHasInlineNonTrailer(x))
	symKnown("C09-line-break-from-character-reference-in-constant-attribute", verifFileHasAttrLineBreak(x))
	symKnown("C09-text-ending-in-lone-carriage-return", verifFileHasTextWithCR(x))
	symAssertEq(f2, f1, "formatting the formatter's output changes nothing")
}
