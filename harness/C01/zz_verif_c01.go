package templ

import (
	"context"
)

// VerifC01Escape: the escaper kernel, in text position and in a double-quoted attribute.
func VerifC01Escape() {
	s := symString("s", symParam("N"))
	o := EscapeString(s)
	symObserve("escaped", o)
	symCover("escaped")
	// text position: "<p>" + o + "</p>" must be: start tag p, one text run equal to s, then "</p>"
	h := "<p>" + o + "</p>"
	text, next, ok := verifTextRun(h, 3)
	symAssert(ok, "text: no unknown character reference")
	symAssert(next == 3+len(o), "text: the run ends exactly where the interpolated string ends (no tag opened)")
	symAssert(text == s, "text: decoded text run equals the string")
	// attribute position: <a t="o" z>
	h2 := "<a t=\"" + o + "\" z>"
	tag := verifStartTag(h2, 0)
	symAssert(tag.OK && tag.Bad == "", "attr: start tag well formed")
	symAssert(tag.End == len(h2), "attr: tag ends where the author ended it")
	symAssert(len(tag.Attrs) == 2, "attr: exactly the two attributes the author wrote")
	if len(tag.Attrs) == 2 {
		symAssert(tag.Attrs[0].Name == "t" && tag.Attrs[0].Value == s, "attr: value arrives verbatim")
		symAssert(tag.Attrs[1].Name == "z" && !tag.Attrs[1].HasEq, "attr: following attribute intact")
	}
	// single-quoted attribute position is also safe with this escaper
	h3 := "<a t='" + o + "' z>"
	tag3 := verifStartTag(h3, 0)
	symAssert(tag3.OK && tag3.End == len(h3) && len(tag3.Attrs) == 2 && tag3.Attrs[0].Value == s, "attr(single-quoted): value arrives verbatim")
}

func verifAttrForm(form int, s string, b1, b2 bool) any {
	switch form {
	case 0:
		return s
	case 1:
		return &s
	case 2:
		return KV(s, b1)
	case 3:
		return b1
	case 4:
		return &b1
	case 5:
		return KV(b1, b2)
	case 6:
		return func() bool { return b1 }
	}
	return nil
}

// VerifC01Attrs: RenderAttributes with every supported value form for key "m", between
// static neighbours "a" (string) and "z" (bool).
func VerifC01Attrs() {
	form := symChoose(7)
	s := symString("s", symParam("N"))
	b1, b2 := symBool("b1"), symBool("b2")
	attrs := Attributes{"a": "1", "m": verifAttrForm(form, s, b1, b2), "z": true}
	w := &verifRec{}
	_, err0 := w.WriteString("<div")
	_ = err0
	err := RenderAttributes(context.Background(), w, attrs)
	w.WriteString(">")
	symAssert(err == nil, "RenderAttributes returns nil on a healthy writer")
	h := string(w.b)
	symObserve("html", h)
	tag := verifStartTag(h, 0)
	symAssert(tag.OK && tag.Bad == "" && tag.End == len(h) && tag.Name == "div", "spread: start tag well formed and ends at the author's '>'")
	var present, hasValue bool
	switch form {
	case 0, 1:
		present, hasValue = true, true
	case 2:
		present, hasValue = b1, true
	case 3, 4, 6:
		present = b1
	case 5:
		present = b1 && b2
	}
	want := 2
	if present {
		want = 3
	}
	symCover("spread-rendered")
	symAssert(len(tag.Attrs) == want, "spread: exactly the expected attributes")
	if len(tag.Attrs) != want {
		return
	}
	symAssert(tag.Attrs[0].Name == "a" && tag.Attrs[0].Value == "1", "spread: first attribute intact")
	last := tag.Attrs[want-1]
	symAssert(last.Name == "z" && !last.HasEq, "spread: last attribute intact")
	if present {
		m := tag.Attrs[1]
		symAssert(m.Name == "m", "spread: middle attribute name")
		if hasValue {
			symAssert(m.HasEq && m.Value == s, "spread: value arrives verbatim")
		} else {
			symAssert(!m.HasEq, "spread: boolean attribute has no value")
		}
	}
}

// VerifC01Classes: class list entries (CSSClasses.String feeds a class attribute through the
// escaper in generated code).
func VerifC01Classes() {
	s := symString("s", symParam("N"))
	b := symBool("b")
	cls := Classes("x", s, KV(s+"k", b), map[string]bool{"m": true}).String()
	o := EscapeString(cls)
	h := "<i class=\"" + o + "\" z>"
	tag := verifStartTag(h, 0)
	symCover("classes")
	symAssert(tag.OK && tag.End == len(h) && len(tag.Attrs) == 2, "class: exactly class and z")
	if len(tag.Attrs) == 2 {
		symAssert(tag.Attrs[0].Name == "class" && tag.Attrs[0].Value == cls, "class: list arrives verbatim as one attribute value")
	}
}

// VerifC01JSONScript: id, type and nonce of the JSON script element.
func VerifC01JSONScript() {
	which := symChoose(3)
	s := symString("s", symParam("N"))
	id, typ, nonce := "i", "t", "n"
	switch which {
	case 0:
		id = s
	case 1:
		typ = s
	case 2:
		nonce = s
	}
	// the nonce reaches the element through the context, an explicit string or a function
	ctx := context.Background()
	el := JSONScript(id, 1).WithType(typ)
	switch symChoose(3) {
	case 0:
		ctx = WithNonce(ctx, nonce)
	case 1:
		el = el.WithNonceFromString(nonce)
	case 2:
		el = el.WithNonceFrom(func(context.Context) string { return nonce })
	}
	w := &verifRec{}
	err := el.Render(ctx, w)
	symAssert(err == nil, "JSONScript renders without error")
	h := string(w.b)
	symObserve("html", h)
	tag := verifStartTag(h, 0)
	symCover("jsonscript")
	symAssert(tag.OK && tag.Bad == "" && tag.Name == "script", "jsonscript: start tag well formed")
	want := []verifAttr{}
	if id != "" {
		want = append(want, verifAttr{"id", id, true})
	}
	if typ != "" {
		want = append(want, verifAttr{"type", typ, true})
	}
	if nonce != "" {
		want = append(want, verifAttr{"nonce", nonce, true})
	}
	symAssert(len(tag.Attrs) == len(want), "jsonscript: exactly the expected attributes")
	if len(tag.Attrs) != len(want) {
		return
	}
	for i := range want {
		symAssert(tag.Attrs[i].Name == want[i].Name && tag.Attrs[i].Value == want[i].Value, "jsonscript: attribute value arrives verbatim")
	}
	symAssert(tag.OK && h[tag.End:] == "1\n</script>", "jsonscript: the tag ends where the author ended it and the body follows")
}

// VerifC01ScriptNonce: the nonce attribute written by writeScriptHeader (script templates).
func VerifC01ScriptNonce() {
	s := symString("s", symParam("N"))
	ctx := WithNonce(context.Background(), s)
	w := &verifRec{}
	err := writeScriptHeader(ctx, w)
	symAssert(err == nil, "writeScriptHeader returns nil")
	h := string(w.b)
	symObserve("html", h)
	tag := verifStartTag(h, 0)
	symCover("scriptheader")
	symAssert(tag.OK && tag.Bad == "" && tag.Name == "script" && tag.End == len(h), "script header: start tag well formed, ends at the author's '>'")
	if s == "" {
		symAssert(len(tag.Attrs) == 0, "script header: no nonce attribute for an empty nonce")
		return
	}
	symAssert(len(tag.Attrs) == 1, "script header: exactly one attribute")
	if len(tag.Attrs) == 1 {
		symAssert(tag.Attrs[0].Name == "nonce" && tag.Attrs[0].Value == s, "script header: nonce arrives verbatim")
	}
}
