package jsonrpc2

import (
	"context"
	"errors"
	"io"

	"encoding/json"
)

// verifPipe is an in-memory connection: writes are appended, reads return the stream in
// chunks cut at the positions in cuts (then to the end), then io.EOF.
type verifPipe struct {
	data []byte
	pos  int
	cuts []int
	oneByte bool
}

func (p *verifPipe) Write(b []byte) (int, error) {
	p.data = append(p.data, b...)
	return len(b), nil
}

func (p *verifPipe) Read(b []byte) (int, error) {
	if p.pos >= len(p.data) {
		return 0, io.EOF
	}
	end := len(p.data)
	if p.oneByte {
		end = p.pos + 1
	}
	for _, c := range p.cuts {
		if c > p.pos && c < end {
			end = c
		}
	}
	if end-p.pos > len(b) {
		end = p.pos + len(b)
	}
	n := copy(b, p.data[p.pos:end])
	p.pos += n
	return n, nil
}

func (p *verifPipe) Close() error { return nil }

// verifRaw is what the DecodeMessage stub returns under symgo: the payload bytes as they are.
type verifRaw struct{ data []byte }

func (verifRaw) jsonrpc2Message()               {}
func (m verifRaw) MarshalJSON() ([]byte, error) { return m.data, nil }
func (m *verifRaw) UnmarshalJSON([]byte) error  { return nil }

// verifDecodeStub replaces DecodeMessage under symgo (encoding/json's reflective decoder is
// outside the engine); the round-trip assertion compares re-marshalled payloads, which is
// the identity for the real decoder on the payloads used here.
func verifDecodeStub(data []byte) (Message, error) {
	cp := make([]byte, len(data))
	copy(cp, data)
	return verifRaw{cp}, nil
}

func verifASCII(name string, max int) string {
	s := symString(name, max)
	for i := 0; i < len(s); i++ {
		symAssume(s[i] >= 0x20 && s[i] < 0x7f)
	}
	return s
}

// VerifC18RoundTrip: messages written to a stream are read back as the same sequence however
// the bytes are chunked; the header number equals the payload's byte count.
func VerifC18RoundTrip() {
	nmsg := 1 + symChoose(2)
	pipe := &verifPipe{}
	s := NewStream(pipe)
	ctx := context.Background()
	var payloads [][]byte
	for i := 0; i < nmsg; i++ {
		method := verifASCII("m"+string(rune('0'+i)), symParam("N"))
		n, err := NewNotification(method+"é", []string{"π"})
		symAssert(err == nil, "notification built")
		want, err := json.Marshal(n)
		symAssert(err == nil, "marshal ok")
		payloads = append(payloads, want)
		before := len(pipe.data)
		tot, err := s.Write(ctx, n)
		symAssert(err == nil, "write ok")
		symAssert(int(tot) == len(pipe.data)-before, "Write reports the bytes it sent")
		// frame = header naming the byte count, separator, payload
		frame := string(pipe.data[before:])
		hdr := "Content-Length: " + verifItoa(len(want)) + "\r\n\r\n"
		symAssert(frame == hdr+string(want), "frame is Content-Length header (byte count) + payload")
	}
	// chunking: one byte at a time, all at once, or cut at symbolic positions
	switch symChoose(3) {
	case 0:
		pipe.oneByte = true
	case 1:
	case 2:
		for k := 0; k < symParam("CUTS"); k++ {
			c := symInt("cut" + string(rune('0'+k)))
			symAssume(c > 0 && c < len(pipe.data))
			pipe.cuts = append(pipe.cuts, c)
		}
	}
	symCover("roundtrip")
	for i := 0; i < nmsg; i++ {
		msg, _, err := s.Read(ctx)
		symAssert(err == nil, "read ok")
		if err != nil {
			return
		}
		got, err := json.Marshal(msg)
		symAssert(err == nil && string(got) == string(payloads[i]), "same messages in the same order")
	}
	_, _, err := s.Read(ctx)
	symAssert(err != nil && errors.Is(err, io.EOF), "after the last message the stream reports EOF")
}

func verifItoa(n int) string {
	if n == 0 {
		return "0"
	}
	var b []byte
	for n > 0 {
		b = append([]byte{byte('0' + n%10)}, b...)
		n /= 10
	}
	return string(b)
}

// VerifC18Malformed: malformed or truncated frames yield an error or a message, never a
// panic or a hang (the path's step budget is the hang detector).
func VerifC18Malformed() {
	pipe := &verifPipe{}
	switch symChoose(4) {
	case 0: // arbitrary bytes
		pipe.data = []byte(symString("raw", symParam("RAW")))
	case 1: // a length header with an arbitrary number, then a short body
		pipe.data = []byte("Content-Length:" + symString("num", symParam("NUM")) + "\r\n\r\n" + symString("body", symParam("BODY")))
	case 2: // arbitrary header line before a valid length
		pipe.data = []byte(symString("line", symParam("RAW")) + "\r\nContent-Length: 2\r\n\r\n{}")
	case 3: // valid frame truncated at an arbitrary point
		full := "Content-Length: 2\r\n\r\n{}"
		cut := symChoose(len(full))
		pipe.data = []byte(full[:cut])
	}
	if symBool("onebyte") {
		pipe.oneByte = true
	}
	s := NewStream(pipe)
	panicked := false
	func() {
		defer func() {
			if r := recover(); r != nil {
				panicked = true
			}
		}()
		for i := 0; i < 3; i++ {
			if _, _, err := s.Read(context.Background()); err != nil {
				break
			}
		}
	}()
	symCover("malformed")
	symAssert(!panicked, "malformed input never panics the reader")
}

// verifScript is a Stream delivering a fixed list of messages, then io.EOF.
type verifScript struct {
	msgs []Message
	pos  int
}

func (s *verifScript) Read(context.Context) (Message, int64, error) {
	if s.pos >= len(s.msgs) {
		return nil, 0, io.EOF
	}
	m := s.msgs[s.pos]
	s.pos++
	return m, 0, nil
}
func (s *verifScript) Write(context.Context, Message) (int64, error) { return 0, nil }
func (s *verifScript) Close() error                                  { return nil }

func verifID(name string) ID {
	if symBool(name + "_isString") {
		return NewStringID(symString(name+"_s", 2))
	}
	return NewNumberID(symInt32(name + "_n"))
}

// VerifC18Routing: the read loop delivers each response to the channel registered under an
// equal id and to no other (single-threaded: run is executed to completion on a script).
func VerifC18Routing() {
	ids := [2]ID{verifID("p0"), verifID("p1")}
	symAssume(ids[0] != ids[1])
	rid := [2]ID{verifID("r0"), verifID("r1")}
	symAssume(rid[0] != rid[1])
	script := &verifScript{msgs: []Message{&Response{id: rid[0]}, &Response{id: rid[1]}}}
	c := &conn{stream: script, pending: make(map[ID]chan *Response), done: make(chan struct{})}
	chans := [2]chan *Response{make(chan *Response, 1), make(chan *Response, 1)}
	c.pending[ids[0]] = chans[0]
	c.pending[ids[1]] = chans[1]
	c.run(context.Background(), func(ctx context.Context, reply Replier, req Request) error { return nil })
	symCover("routing")
	for p := range ids {
		want := -1
		for r := range rid {
			if rid[r] == ids[p] {
				want = r
			}
		}
		select {
		case got := <-chans[p]:
			symAssert(want >= 0 && got.id == ids[p], "a response is delivered only to the call with an equal id")
		default:
			symAssert(want < 0, "a call whose id was answered receives its response")
		}
	}
	symAssert(c.Err() != nil, "the read loop ends with the stream's error")
}

// verifUnmarshalScalar stands in for encoding/json.Unmarshal under symgo (the reflective decoder
// is outside the engine) for the two targets ID.UnmarshalJSON uses: *int32 takes a JSON integer,
// *string a JSON string without escapes; anything else is a type error, as in encoding/json.
func verifUnmarshalScalar(data []byte, v any) error {
	switch p := v.(type) {
	case *int32:
		i, neg := 0, false
		if i < len(data) && data[i] == '-' {
			neg = true
			i++
		}
		if i >= len(data) || (data[i] == '0' && i+1 < len(data)) {
			return verifErrJSON
		}
		n := int64(0)
		for ; i < len(data); i++ {
			if data[i] < '0' || data[i] > '9' {
				return verifErrJSON
			}
			n = n*10 + int64(data[i]-'0')
		}
		if neg {
			n = -n
		}
		*p = int32(n)
		return nil
	case *string:
		if len(data) < 2 || data[0] != '"' || data[len(data)-1] != '"' {
			return verifErrJSON
		}
		*p = string(data[1 : len(data)-1])
		return nil
	}
	return verifErrJSON
}

var verifErrJSON = errJSONStub{}

type errJSONStub struct{}

func (errJSONStub) Error() string { return "json: cannot unmarshal" }

// VerifC18IDCodec: an id read from the wire keeps its kind and its text - a string id stays a
// string id whatever characters it is made of (digits included), a number id a number - and is
// written back byte for byte; ids of different kinds never compare equal.
func VerifC18IDCodec() {
	var data []byte
	isString := symBool("string")
	var text string
	if isString {
		text = symString("name", symParam("N"))
		symAssume(len(text) >= 1)
		for i := 0; i < len(text); i++ {
			c := text[i]
			symAssume((c >= '0' && c <= '9') || (c >= 'a' && c <= 'z') || c == '-')
		}
		data = []byte(`"` + text + `"`)
	} else {
		text = symString("num", symParam("NUM"))
		symAssume(len(text) >= 1)
		for i := 0; i < len(text); i++ {
			c := text[i]
			symAssume((c >= '0' && c <= '9') || (i == 0 && c == '-' && len(text) > 1))
		}
		symAssume(!(text[0] == '0' && len(text) > 1) && !(text[0] == '-' && text[1] == '0'))
		data = []byte(text)
	}
	var id ID
	err := id.UnmarshalJSON(data)
	symCover("decoded")
	symAssert(err == nil, "a number or string id decodes")
	if err != nil {
		return
	}
	if isString {
		symAssert(id.name == text && id.number == 0, "a string id stays a string id with the same text")
		symAssert(id != NewNumberID(7) && id != NewNumberID(0), "a string id never equals a number id")
	} else {
		symAssert(id.name == "", "a number id stays a number id")
	}
	out, err := id.MarshalJSON()
	symAssert(err == nil && string(out) == string(data), "the id is written back byte for byte")
}

// ---- a small JSON reader standing in for encoding/json's reflective decoder (engine only) ----

func verifJSONSkip(d []byte, i int) int {
	for i < len(d) && (d[i] == ' ' || d[i] == '\t' || d[i] == '\n' || d[i] == '\r') {
		i++
	}
	return i
}

// verifJSONValueEnd returns the index just past the JSON value starting at i (-1 if malformed).
func verifJSONValueEnd(d []byte, i int) int {
	if i >= len(d) {
		return -1
	}
	switch c := d[i]; {
	case c == '"':
		for j := i + 1; j < len(d); j++ {
			if d[j] == '\\' {
				j++
			} else if d[j] == '"' {
				return j + 1
			}
		}
		return -1
	case c == '{' || c == '[':
		depth := 0
		for j := i; j < len(d); j++ {
			switch d[j] {
			case '"':
				e := verifJSONValueEnd(d, j)
				if e < 0 {
					return -1
				}
				j = e - 1
			case '{', '[':
				depth++
			case '}', ']':
				depth--
				if depth == 0 {
					return j + 1
				}
			}
		}
		return -1
	default:
		j := i
		for j < len(d) && d[j] != ',' && d[j] != '}' && d[j] != ']' && d[j] != ' ' && d[j] != '\n' {
			j++
		}
		if j == i {
			return -1
		}
		return j
	}
}

// verifJSONObject splits {"k":v,...} into keys and raw values.
func verifJSONObject(d []byte) (keys []string, vals [][]byte, ok bool) {
	i := verifJSONSkip(d, 0)
	if i >= len(d) || d[i] != '{' {
		return nil, nil, false
	}
	i = verifJSONSkip(d, i+1)
	if i < len(d) && d[i] == '}' {
		return nil, nil, verifJSONSkip(d, i+1) == len(d)
	}
	for {
		e := verifJSONValueEnd(d, i)
		if e < 0 || d[i] != '"' {
			return nil, nil, false
		}
		keys = append(keys, string(d[i+1:e-1]))
		i = verifJSONSkip(d, e)
		if i >= len(d) || d[i] != ':' {
			return nil, nil, false
		}
		i = verifJSONSkip(d, i+1)
		e = verifJSONValueEnd(d, i)
		if e < 0 {
			return nil, nil, false
		}
		cp := make([]byte, e-i)
		copy(cp, d[i:e])
		vals = append(vals, cp)
		i = verifJSONSkip(d, e)
		if i < len(d) && d[i] == ',' {
			i = verifJSONSkip(d, i+1)
			continue
		}
		if i < len(d) && d[i] == '}' {
			return keys, vals, verifJSONSkip(d, i+1) == len(d)
		}
		return nil, nil, false
	}
}

func verifRawOrNil(raw []byte) *json.RawMessage {
	if string(raw) == "null" {
		return nil // encoding/json sets a pointer field to nil for null
	}
	rm := json.RawMessage(raw)
	return &rm
}

// verifUnmarshalMessage stands in for encoding/json.Unmarshal (and Decoder.Decode) for the types
// the message decoder uses: the combined wire struct, the error object, ids and plain strings.
func verifUnmarshalMessage(data []byte, v any) error {
	switch p := v.(type) {
	case *int32, *string:
		return verifUnmarshalScalar(data, v)
	case *combined:
		keys, vals, ok := verifJSONObject(data)
		if !ok {
			return verifErrJSON
		}
		for k, key := range keys {
			raw := vals[k]
			switch key {
			case "jsonrpc":
				if err := p.VersionTag.UnmarshalJSON(raw); err != nil {
					return err
				}
			case "id":
				if string(raw) != "null" {
					p.ID = new(ID)
					if err := p.ID.UnmarshalJSON(raw); err != nil {
						return err
					}
				}
			case "method":
				if err := verifUnmarshalScalar(raw, &p.Method); err != nil {
					return err
				}
			case "params":
				p.Params = verifRawOrNil(raw)
			case "result":
				p.Result = verifRawOrNil(raw)
			case "error":
				if string(raw) == "null" {
					continue
				}
				ek, ev, ok := verifJSONObject(raw)
				if !ok {
					return verifErrJSON
				}
				p.Error = &Error{}
				for j, name := range ek {
					switch name {
					case "code":
						var n int32
						if err := verifUnmarshalScalar(ev[j], &n); err != nil {
							return err
						}
						p.Error.Code = Code(n)
					case "message":
						if err := verifUnmarshalScalar(ev[j], &p.Error.Message); err != nil {
							return err
						}
					case "data":
						p.Error.Data = verifRawOrNil(ev[j])
					}
				}
			}
		}
		return nil
	}
	return verifErrJSON
}

// VerifC18DecodeKinds: every kind of message - call, notification, success response (result a
// string, an object, or JSON null), error response - written with the real encoder is read back by
// the real DecodeMessage as a message of the same kind with the same id, method and payload.
func VerifC18DecodeKinds() {
	var id ID
	if symBool("stringID") {
		id = NewStringID("a1")
	} else {
		id = NewNumberID(7)
	}
	var m Message
	var err error
	kind := symChoose(6)
	switch kind {
	case 0:
		m, err = NewCall(id, "do", []string{"p"})
	case 1:
		m, err = NewNotification("note", nil)
	case 2:
		m, err = NewResponse(id, "r", nil)
	case 3:
		m, err = NewResponse(id, map[string]int{"a": 1}, nil)
	case 4:
		m, err = NewResponse(id, nil, nil) // "result":null - a valid success response
	case 5:
		m, err = NewResponse(id, nil, NewError(MethodNotFound, "nope"))
	}
	symAssert(err == nil, "message built")
	data, err := json.Marshal(m)
	symAssert(err == nil, "message encodes")
	symObserve("wire", string(data))
	back, err := DecodeMessage(data)
	symCover("decoded-kinds")
	symAssert(err == nil, "a message written by the encoder is read back")
	if err != nil {
		return
	}
	again, err := json.Marshal(back)
	symAssert(err == nil && string(again) == string(data), "the message read back encodes to the same bytes")
	switch kind {
	case 0:
		c, ok := back.(*Call)
		symAssert(ok && c.ID() == id && c.Method() == "do", "a call is read back as a call with its id and method")
	case 1:
		n, ok := back.(*Notification)
		symAssert(ok && n.Method() == "note", "a notification is read back as a notification")
	default:
		r, ok := back.(*Response)
		symAssert(ok && r.ID() == id, "a response is read back as a response with its id")
		if ok {
			symAssert((r.Err() != nil) == (kind == 5), "only the error response carries an error")
		}
	}
}
