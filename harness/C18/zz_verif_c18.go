package jsonrpc2

import (
	"context"
	"errors"
	"io"

	"encoding/json"
)

// verifPipe is an in-memory connection: writes are appended, reads return the stream in
// chunks cut at the positions in cuts (then to the end), then io.EOF.
type verifPipe struct {
	data []byte
	pos  int
	cuts []int
	oneByte bool
}

func (p *verifPipe) Write(b []byte) (int, error) {
	p.data = append(p.data, b...)
	return len(b), nil
}

func (p *verifPipe) Read(b []byte) (int, error) {
	if p.pos >= len(p.data) {
		return 0, io.EOF
	}
	end := len(p.data)
	if p.oneByte {
		end = p.pos + 1
	}
	for _, c := range p.cuts {
		if c > p.pos && c < end {
			end = c
		}
	}
	if end-p.pos > len(b) {
		end = p.pos + len(b)
	}
	n := copy(b, p.data[p.pos:end])
	p.pos += n
	return n, nil
}

func (p *verifPipe) Close() error { return nil }

// verifRaw is what the DecodeMessage stub returns under symgo: the payload bytes as they are.
type verifRaw struct{ data []byte }

func (verifRaw) jsonrpc2Message()               {}
func (m verifRaw) MarshalJSON() ([]byte, error) { return m.data, nil }
func (m *verifRaw) UnmarshalJSON([]byte) error  { return nil }

// verifDecodeStub replaces DecodeMessage under symgo (encoding/json's reflective decoder is
// outside the engine); the round-trip assertion compares re-marshalled payloads, which is
// the identity for the real decoder on the payloads used here.
func verifDecodeStub(data []byte) (Message, error) {
	cp := make([]byte, len(data))
	copy(cp, data)
	return verifRaw{cp}, nil
}

func verifASCII(name string, max int) string {
	s := symString(name, max)
	for i := 0; i < len(s); i++ {
		symAssume(s[i] >= 0x20 && s[i] < 0x7f)
	}
	return s
}

// VerifC18RoundTrip: messages written to a stream are read back as the same sequence however
// the bytes are chunked; the header number equals the payload's byte count.
func VerifC18RoundTrip() {
	nmsg := 1 + symChoose(2)
	pipe := &verifPipe{}
	s := NewStream(pipe)
	ctx := context.Background()
	var payloads [][]byte
	for i := 0; i < nmsg; i++ {
		method := verifASCII("m"+string(rune('0'+i)), symParam("N"))
		n, err := NewNotification(method+"é", []string{"π"})
		symAssert(err == nil, "notification built")
		want, err := json.Marshal(n)
		symAssert(err == nil, "marshal ok")
		payloads = append(payloads, want)
		before := len(pipe.data)
		tot, err := s.Write(ctx, n)
		symAssert(err == nil, "write ok")
		symAssert(int(tot) == len(pipe.data)-before, "Write reports the bytes it sent")
		// frame = header naming the byte count, separator, payload
		frame := string(pipe.data[before:])
		hdr := "Content-Length: " + verifItoa(len(want)) + "\r\n\r\n"
		symAssert(frame == hdr+string(want), "frame is Content-Length header (byte count) + payload")
	}
	// chunking: one byte at a time, all at once, or cut at symbolic positions
	switch symChoose(3) {
	case 0:
		pipe.oneByte = true
	case 1:
	case 2:
		for k := 0; k < symParam("CUTS"); k++ {
			c := symInt("cut" + string(rune('0'+k)))
			symAssume(c > 0 && c < len(pipe.data))
			pipe.cuts = append(pipe.cuts, c)
		}
	}
	symCover("roundtrip")
	for i := 0; i < nmsg; i++ {
		msg, _, err := s.Read(ctx)
		symAssert(err == nil, "read ok")
		if err != nil {
			return
		}
		got, err := json.Marshal(msg)
		symAssert(err == nil && string(got) == string(payloads[i]), "same messages in the same order")
	}
	_, _, err := s.Read(ctx)
	symAssert(err != nil && errors.Is(err, io.EOF), "after the last message the stream reports EOF")
}

func verifItoa(n int) string {
	if n == 0 {
		return "0"
	}
	var b []byte
	for n > 0 {
		b = append([]byte{byte('0' + n%10)}, b...)
		n /= 10
	}
	return string(b)
}

// VerifC18Malformed: malformed or truncated frames yield an error or a message, never a
// panic or a hang (the path's step budget is the hang detector).
func VerifC18Malformed() {
	pipe := &verifPipe{}
	switch symChoose(4) {
	case 0: // arbitrary bytes
		pipe.data = []byte(symString("raw", symParam("RAW")))
	case 1: // a length header with an arbitrary number, then a short body
		pipe.data = []byte("Content-Length:" + symString("num", symParam("NUM")) + "\r\n\r\n" + symString("body", symParam("BODY")))
	case 2: // arbitrary header line before a valid length
		pipe.data = []byte(symString("line", symParam("RAW")) + "\r\nContent-Length: 2\r\n\r\n{}")
	case 3: // valid frame truncated at an arbitrary point
		full := "Content-Length: 2\r\n\r\n{}"
		cut := symChoose(len(full))
		pipe.data = []byte(full[:cut])
	}
	if symBool("onebyte") {
		pipe.oneByte = true
	}
	s := NewStream(pipe)
	panicked := false
	func() {
		defer func() {
			if r := recover(); r != nil {
				panicked = true
			}
		}()
		for i := 0; i < 3; i++ {
			if _, _, err := s.Read(context.Background()); err != nil {
				break
			}
		}
	}()
	symCover("malformed")
	symAssert(!panicked, "malformed input never panics the reader")
}

// verifScript is a Stream delivering a fixed list of messages, then io.EOF.
type verifScript struct {
	msgs []Message
	pos  int
}

func (s *verifScript) Read(context.Context) (Message, int64, error) {
	if s.pos >= len(s.msgs) {
		return nil, 0, io.EOF
	}
	m := s.msgs[s.pos]
	s.pos++
	return m, 0, nil
}
func (s *verifScript) Write(context.Context, Message) (int64, error) { return 0, nil }
func (s *verifScript) Close() error                                  { return nil }

func verifID(name string) ID {
	if symBool(name + "_isString") {
		return NewStringID(symString(name+"_s", 2))
	}
	return NewNumberID(symInt32(name + "_n"))
}

// VerifC18Routing: the read loop delivers each response to the channel registered under an
// equal id and to no other (single-threaded: run is executed to completion on a script).
func VerifC18Routing() {
	ids := [2]ID{verifID("p0"), verifID("p1")}
	symAssume(ids[0] != ids[1])
	rid := [2]ID{verifID("r0"), verifID("r1")}
	symAssume(rid[0] != rid[1])
	script := &verifScript{msgs: []Message{&Response{id: rid[0]}, &Response{id: rid[1]}}}
	c := &conn{stream: script, pending: make(map[ID]chan *Response), done: make(chan struct{})}
	chans := [2]chan *Response{make(chan *Response, 1), make(chan *Response, 1)}
	c.pending[ids[0]] = chans[0]
	c.pending[ids[1]] = chans[1]
	c.run(context.Background(), func(ctx context.Context, reply Replier, req Request) error { return nil })
	symCover("routing")
	for p := range ids {
		want := -1
		for r := range rid {
			if rid[r] == ids[p] {
				want = r
			}
		}
		select {
		case got := <-chans[p]:
			symAssert(want >= 0 && got.id == ids[p], "a response is delivered only to the call with an equal id")
		default:
			symAssert(want < 0, "a call whose id was answered receives its response")
		}
	}
	symAssert(c.Err() != nil, "the read loop ends with the stream's error")
}

// verifUnmarshalScalar stands in for encoding/json.Unmarshal under symgo (the reflective decoder
// is outside the engine) for the two targets ID.UnmarshalJSON uses: *int32 takes a JSON integer,
// *string a JSON string without escapes; anything else is a type error, as in encoding/json.
func verifUnmarshalScalar(data []byte, v any) error {
	switch p := v.(type) {
	case *int32:
		i, neg := 0, false
		if i < len(data) && data[i] == '-' {
			neg = true
			i++
		}
		if i >= len(data) || (data[i] == '0' && i+1 < len(data)) {
			return verifErrJSON
		}
		n := int64(0)
		for ; i < len(data); i++ {
			if data[i] < '0' || data[i] > '9' {
				return verifErrJSON
			}
			n = n*10 + int64(data[i]-'0')
		}
		if neg {
			n = -n
		}
		*p = int32(n)
		return nil
	case *string:
		if len(data) < 2 || data[0] != '"' || data[len(data)-1] != '"' {
			return verifErrJSON
		}
		*p = string(data[1 : len(data)-1])
		return nil
	}
	return verifErrJSON
}

var verifErrJSON = errJSONStub{}

type errJSONStub struct{}

func (errJSONStub) Error() string { return "json: cannot unmarshal" }

// VerifC18IDCodec: an id read from the wire keeps its kind and its text - a string id stays a
// string id whatever characters it is made of (digits included), a number id a number - and is
// written back byte for byte; ids of different kinds never compare equal.
func VerifC18IDCodec() {
	var data []byte
	isString := symBool("string")
	var text string
	if isString {
		text = symString("name", symParam("N"))
		symAssume(len(text) >= 1)
		for i := 0; i < len(text); i++ {
			c := text[i]
			symAssume((c >= '0' && c <= '9') || (c >= 'a' && c <= 'z') || c == '-')
		}
		data = []byte(`"` + text + `"`)
	} else {
		text = symString("num", symParam("NUM"))
		symAssume(len(text) >= 1)
		for i := 0; i < len(text); i++ {
			c := text[i]
			symAssume((c >= '0' && c <= '9') || (i == 0 && c == '-' && len(text) > 1))
		}
		symAssume(!(text[0] == '0' && len(text) > 1) && !(text[0] == '-' && text[1] == '0'))
		data = []byte(text)
	}
	var id ID
	err := id.UnmarshalJSON(data)
	symCover("decoded")
	symAssert(err == nil, "a number or string id decodes")
	if err != nil {
		return
	}
	if isString {
		symAssert(id.name == text && id.number == 0, "a string id stays a string id with the same text")
		symAssert(id != NewNumberID(7) && id != NewNumberID(0), "a string id never equals a number id")
	} else {
		symAssert(id.name == "", "a number id stays a number id")
	}
	out, err := id.MarshalJSON()
	symAssert(err == nil && string(out) == string(data), "the id is written back byte for byte")
}
