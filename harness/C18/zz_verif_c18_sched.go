package jsonrpc2

import (
	"time"
	"context"
	"errors"
	"io"

	"encoding/json"
)

// verifSink is the outgoing half of a connection: every Write is one chunk on a channel, so
// each write is a visible operation for the scheduler and two senders can interleave exactly
// where the real connection lets them.
type verifSink struct {
	ch      chan []byte
	data    []byte
	noYield bool
}

func (s *verifSink) Write(p []byte) (int, error) {
	cp := make([]byte, len(p))
	copy(cp, p)
	s.ch <- cp
	if s.noYield {
		return len(p), nil
	}
	symYield() // natively: give a concurrent sender time to get in between two writes
	return len(p), nil
}
func (s *verifSink) Read([]byte) (int, error) { return 0, io.EOF }
func (s *verifSink) Close() error             { return nil }

func (s *verifSink) drain() {
	for {
		select {
		case c := <-s.ch:
			s.data = append(s.data, c...)
		default:
			return
		}
	}
}

// verifHybrid reads scripted messages (the reflective JSON decoder is outside the engine) and
// writes through the real framing stream.
type verifHybrid struct {
	in  []Message
	pos int
	out Stream
	// gate, when non-nil, must be received from before the next message is delivered
	gate chan struct{}
	// before, when non-nil, must be received from before the first message is delivered
	before chan struct{}
}

func (h *verifHybrid) Read(ctx context.Context) (Message, int64, error) {
	if h.before != nil && h.pos == 0 {
		<-h.before
	}
	if h.pos >= len(h.in) {
		if h.gate != nil {
			<-h.gate // the peer goes quiet until the harness closes the connection
		}
		return nil, 0, io.EOF
	}
	m := h.in[h.pos]
	h.pos++
	return m, 0, nil
}
func (h *verifHybrid) Write(ctx context.Context, m Message) (int64, error) { return h.out.Write(ctx, m) }
func (h *verifHybrid) Close() error                                        { return nil }

type verifDoneCtx struct {
	context.Context
	done chan struct{}
}

func (c verifDoneCtx) Done() <-chan struct{} { return c.done }
func (c verifDoneCtx) Err() error {
	select {
	case <-c.done:
		return context.Canceled
	default:
		return nil
	}
}

// VerifC18Senders: a handler replying to an incoming call while another goroutine sends a
// notification on the same connection: the frames on the wire never interleave.
func VerifC18Senders() {
	sink := &verifSink{ch: make(chan []byte, 16)}
	call, err := NewCall(NewNumberID(7), "m", nil)
	symAssert(err == nil, "call built")
	hy := &verifHybrid{in: []Message{call}, out: NewStream(sink)}
	c := NewConn(hy)
	ctx := context.Background()
	c.Go(ctx, func(ctx context.Context, reply Replier, req Request) error {
		return reply(ctx, "ok", nil)
	})
	nerr := c.Notify(ctx, "n", []string{"é"})
	symAssert(nerr == nil, "notify sent")
	symQuiesce()
	sink.drain()
	symCover("senders")
	// the peer reads the byte stream back: exactly two well-formed frames
	resp, _ := NewResponse(NewNumberID(7), "ok", nil)
	wantResp, _ := json.Marshal(resp)
	note, _ := NewNotification("n", []string{"é"})
	wantNote, _ := json.Marshal(note)
	peer := NewStream(&verifPipe{data: sink.data})
	var got [][]byte
	for i := 0; i < 2; i++ {
		m, _, rerr := peer.Read(ctx)
		symAssert(rerr == nil, "every frame on the wire is well formed (frames of concurrent senders do not interleave)")
		if rerr != nil {
			return
		}
		b, _ := json.Marshal(m)
		got = append(got, b)
	}
	okOrder1 := string(got[0]) == string(wantResp) && string(got[1]) == string(wantNote)
	okOrder2 := string(got[0]) == string(wantNote) && string(got[1]) == string(wantResp)
	symAssert(okOrder1 || okOrder2, "the peer receives exactly the reply and the notification, each intact")
	_, _, rerr := peer.Read(ctx)
	symAssert(rerr != nil, "nothing else is on the wire")
}

// VerifC18CallCancel: a call whose reply races its cancellation returns its own response or
// its own cancellation, and leaves nothing pending.
func VerifC18CallCancel() {
	sink := &verifSink{ch: make(chan []byte, 16)}
	respID := NewNumberID(1) // the id Call will allocate
	if symBool("foreignReply") {
		respID = NewNumberID(2) // a reply for some other call must not be delivered to this one
	}
	hy := &verifHybrid{in: []Message{&Response{id: respID, result: []byte(`"r"`)}}, out: NewStream(sink), gate: make(chan struct{})}
	c := NewConn(hy).(*conn)
	c.Go(context.Background(), func(ctx context.Context, reply Replier, req Request) error { return nil })
	cctx := verifDoneCtx{context.Background(), make(chan struct{})}
	go func() { close(cctx.done) }() // the caller's cancellation arrives at an arbitrary moment
	id, err := c.Call(cctx, "m", nil, nil)
	symCover("call-returned")
	symAssert(id == NewNumberID(1), "the call carries the id it allocated")
	if err != nil {
		symAssert(errors.Is(err, context.Canceled), "a call without its response ends with its own cancellation")
	} else {
		symAssert(respID == NewNumberID(1), "a call only completes with the response carrying its id")
	}
	c.pendingMu.Lock()
	n := len(c.pending)
	c.pendingMu.Unlock()
	symAssert(n == 0, "nothing is left pending after the call returned")
	// whatever the cancellation interrupted, the byte stream stays framed: a notification sent
	// afterwards arrives intact behind whole frames only
	after, _ := NewNotification("after", []string{"é"})
	wantAfter, _ := json.Marshal(after)
	nerr := c.Notify(context.Background(), "after", []string{"é"})
	symAssert(nerr == nil, "a notification can be sent after the call returned")
	symQuiesce()
	sink.drain()
	peer := NewStream(&verifPipe{data: sink.data})
	var last []byte
	intact := true
	for i := 0; i < 4; i++ {
		m, _, rerr := peer.Read(context.Background())
		if rerr != nil {
			break
		}
		last, _ = json.Marshal(m)
		if len(last) == 0 || last[0] != '{' || last[len(last)-1] != '}' {
			intact = false
		}
	}
	symAssert(intact && string(last) == string(wantAfter), "after a cancelled call the wire holds whole frames only and the next message arrives intact")
	close(hy.gate)
	symAssert(symQuiesce() == 0, "no goroutine is left blocked forever")
}


// verifAwait receives up to n values from ch: under the engine until nothing can move any more,
// natively until 300 ms pass without one.
func verifAwait(n int, ch chan struct{}) int {
	got := 0
	for got < n {
		if symNative() {
			select {
			case <-ch:
				got++
				continue
			case <-time.After(300 * time.Millisecond):
				return got
			}
		}
		select {
		case <-ch:
			got++
			continue
		default:
		}
		symQuiesce()
		select {
		case <-ch:
			got++
		default:
			return got
		}
	}
	return got
}

// VerifC18Callers: two goroutines call on the same connection at the same time; the peer answers
// both (in either order) once both calls are on the wire: the calls carry different ids and each
// returns the response with its own id. (Natively the scenario is attempted many times: the
// window between two atomic operations cannot be forced.)
func VerifC18Callers() {
	answerSecondFirst := symBool("answerSecondFirst")
	for rep := 0; rep < symNativeRepeat(3000); rep++ {
		verifCallersOnce(answerSecondFirst)
	}
	symCover("callers-returned")
}

func verifCallersOnce(answerSecondFirst bool) {
	sink := &verifSink{ch: make(chan []byte, 16), noYield: true}
	first, second := NewNumberID(1), NewNumberID(2)
	if answerSecondFirst {
		first, second = second, first
	}
	hy := &verifHybrid{
		in:  []Message{&Response{id: first, result: []byte(`"r"`)}, &Response{id: second, result: []byte(`"r"`)}},
		out: NewStream(sink), gate: make(chan struct{}), before: make(chan struct{}),
	}
	c := NewConn(hy).(*conn)
	c.Go(context.Background(), func(ctx context.Context, reply Replier, req Request) error { return nil })
	var ids [2]ID
	var errs [2]error
	finished := make(chan struct{}, 2)
	ctxs := [2]verifDoneCtx{{context.Background(), make(chan struct{})}, {context.Background(), make(chan struct{})}}
	for i := 0; i < 2; i++ {
		i := i
		go func() {
			ids[i], errs[i] = c.Call(ctxs[i], "m", nil, nil)
			finished <- struct{}{}
		}()
	}
	for k := 0; k < 4; k++ { // header and body of both calls are on the wire
		<-sink.ch
	}
	close(hy.before)
	n := verifAwait(2, finished)
	symAssert(n == 2, "both concurrent calls return once the peer has answered both")
	if n == 2 {
		symAssert(errs[0] == nil && errs[1] == nil, "both calls return their response")
		symAssert(ids[0] != ids[1], "concurrent calls carry different ids")
	}
	close(ctxs[0].done) // release whatever is still waiting
	close(ctxs[1].done)
	close(hy.gate)
	if n != 2 {
		verifAwait(2-n, finished)
	}
}
