package zzverif

import (
	"context"
	"errors"
	"io"

	"github.com/a-h/templ"
	templruntime "github.com/a-h/templ/runtime"
)

var errExpr = errors.New("injected expression error")
var errWrite = errors.New("injected write fault")

type faults struct{ fail string }

func (f *faults) str(id string) (string, error) {
	if f.fail == id {
		return "", errExpr
	}
	return "v" + id, nil
}

func (f *faults) plain(s string) string { return s }

func (f *faults) err(id string) error {
	if f.fail == id {
		return errExpr
	}
	return nil
}

// source lines of the failing expressions in c10.templ (first line, last line)
var exprLines = map[string][2]int{"x1": {5, 5}, "x2": {6, 6}, "x3": {26, 26}, "x4": {12, 14}, "x6": {18, 18}, "x7": {18, 18}, "x8": {19, 19}}

// faultWriter accepts failAt bytes in total, then fails in the chosen way.
type faultWriter struct {
	failAt int
	mode   int // 0: short write + error, 1: nothing written + error, 2: short write, nil error
	got    []byte
	hit    bool
}

func (w *faultWriter) Write(p []byte) (int, error) {
	room := w.failAt - len(w.got)
	if room >= len(p) {
		w.got = append(w.got, p...)
		return len(p), nil
	}
	w.hit = true
	if room < 0 {
		room = 0
	}
	switch w.mode {
	case 1:
		return 0, errWrite
	case 2:
		w.got = append(w.got, p[:room]...)
		return room, nil
	}
	w.got = append(w.got, p[:room]...)
	return room, errWrite
}

type cancelledCtx struct{ context.Context }

func (cancelledCtx) Err() error { return context.Canceled }

func isPrefix(p, full []byte) bool {
	if len(p) > len(full) {
		return false
	}
	return string(p) == string(full[:len(p)])
}

func findTemplError(err error) (templ.Error, bool) {
	for e := err; e != nil; e = errors.Unwrap(e) {
		if te, ok := e.(templ.Error); ok {
			return te, true
		}
	}
	return templ.Error{}, false
}

func symItems() []string {
	n := symChoose(3)
	items := make([]string, n)
	for i := range items {
		items[i] = symString("it"+string(rune('0'+i)), symParam("N"))
	}
	return items
}

// wantDoc is the full document of Page, written down independently of the generator.
func wantDoc(items []string, kid bool) string {
	d := `<div class="a">vx1 <span title="vx2">t</span><p>vx3</p>`
	for _, it := range items {
		d += "<i>" + escRef(it) + "</i>"
	}
	d += `<b>vx4</b><raw/><q>j1</q><q>j2</q><u>m</u> <s style="vx8;">k</s> <em>end</em>`
	if kid {
		d += "<q>kid</q>"
	}
	return d + "</div>"
}

func escRef(s string) string {
	out := make([]byte, 0, len(s)+8)
	for i := 0; i < len(s); i++ {
		switch s[i] {
		case '&':
			out = append(out, "&amp;"...)
		case '<':
			out = append(out, "&lt;"...)
		case '>':
			out = append(out, "&gt;"...)
		case '"':
			out = append(out, "&#34;"...)
		case '\'':
			out = append(out, "&#39;"...)
		default:
			out = append(out, s[i])
		}
	}
	return string(out)
}

func VerifC10Faults() {
	templruntime.DefaultBufferSize = []int{4, 4096, 16}[symChoose(symParam("BUFS"))]
	items := symItems()
	// the outermost component may be handed children from Go code
	kid := symBool("kid")
	mkctx := func() context.Context { // children are handed over per render
		if kid {
			return templ.WithChildren(context.Background(), Leaf("kid"))
		}
		return context.Background()
	}
	// the full document: a fault-free render, which must equal the document written down by hand
	full := &faultWriter{failAt: 1 << 30}
	err0 := Page(&faults{}, items).Render(mkctx(), full)
	symAssert(err0 == nil && !full.hit, "fault-free render returns nil")
	D := full.got
	symObserve("D", string(D))
	symAssertEq(string(D), wantDoc(items, kid), "the fault-free render is the full document, in order")

	kind := symChoose(4)
	fail := ""
	ctx := mkctx()
	ownBuffer := false
	w := &faultWriter{failAt: 1 << 30}
	switch kind {
	case 0: // writer failure at an arbitrary offset
		w.failAt = symInt("failAt")
		symAssume(w.failAt >= 0)
		w.mode = symChoose(3)
	case 1: // one expression / nested component / raw component errs
		fail = []string{"x1", "x2", "x3", "x4", "x5", "x6", "x7", "x8"}[symChoose(8)]
	case 2: // context already cancelled; the caller may render into a buffer of its own
		ctx = cancelledCtx{ctx}
		ownBuffer = symBool("ownBuffer")
	case 3: // writer failure and expression error together
		w.failAt = symInt("failAt")
		symAssume(w.failAt >= 0)
		fail = []string{"x1", "x4"}[symChoose(2)]
	}
	var err error
	if ownBuffer {
		buf, _ := templruntime.GetBuffer(w)
		err = Page(&faults{fail: fail}, items).Render(ctx, buf)
		if rerr := templruntime.ReleaseBuffer(buf); err == nil {
			err = rerr
		}
	} else {
		err = Page(&faults{fail: fail}, items).Render(ctx, w)
	}
	// (the bytes received are not recorded as an observation: natively the pool may hand out a
	// buffer allocated with another size by an earlier case, which changes where a write is cut -
	// the assertions below hold for every buffer size)
	symObserveBool("errnil", err == nil)
	if err == nil {
		symCover("ok")
		symAssert(string(w.got) == string(D), "nil error: the writer accepted exactly the full document, once and in order")
		symAssert(fail == "" && kind != 2, "an expression error or a cancelled context is never swallowed")
		symAssert(!w.hit, "a writer failure is never swallowed")
	} else {
		symCover("failed")
		symAssert(isPrefix(w.got, D), "on failure the bytes received are a prefix of the full document")
		switch kind {
		case 0:
			symAssert(w.hit, "an error needs a cause")
			if w.mode == 2 {
				symAssert(errors.Is(err, io.ErrShortWrite), "short write with nil error is reported as io.ErrShortWrite")
			} else {
				symAssert(errors.Is(err, errWrite), "the error wraps the writer's error")
			}
		case 1:
			symAssert(errors.Is(err, errExpr), "the error wraps the expression's error")
			if lines, ok := exprLines[fail]; ok {
				te, found := findTemplError(err)
				symAssert(found, "expression errors are templ.Error values")
				if found {
					symAssert(te.FileName == "c10.templ", "templ.Error carries the template file name")
					symAssert(te.Line >= lines[0] && te.Line <= lines[1], "templ.Error line lies inside the failing expression")
				}
			}
		case 2:
			symAssert(errors.Is(err, context.Canceled), "the error is the context's error")
			symAssert(len(w.got) == 0, "a cancelled context produces no output")
		case 3:
			symAssert(errors.Is(err, errExpr) || errors.Is(err, errWrite), "the error wraps one of the causes")
		}
	}
	// a failed (or successful) render never alters a later one, also through the pools:
	// first into the very same writer value, now healthy again ...
	w.failAt, w.mode, w.hit, w.got = 1<<30, 0, false, nil
	errSame := Page(&faults{}, items).Render(mkctx(), w)
	symAssert(errSame == nil, "a later render into the same (recovered) writer succeeds")
	symAssert(string(w.got) == string(D), "a later render into the same writer yields the full document")
	// ... then into a fresh one
	again := &faultWriter{failAt: 1 << 30}
	err2 := Page(&faults{}, items).Render(mkctx(), again)
	symAssert(err2 == nil, "a later render succeeds")
	symAssert(string(again.got) == string(D), "a later render yields the full document")
}
