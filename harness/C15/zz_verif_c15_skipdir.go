package skipdir

// VerifC15ShouldSkip: the skip predicate on an arbitrary path string.
func VerifC15ShouldSkip() {
	p := symString("p", symParam("N"))
	got := ShouldSkip(p)
	symObserveBool("skip", got)
	// reference: the last path element decides
	last := 0
	for i := 0; i < len(p); i++ {
		if p[i] == '/' {
			last = i + 1
		}
	}
	name := p[last:]
	want := name == "vendor" || name == "node_modules" || (len(name) > 0 && (name[0] == '.' || name[0] == '_'))
	if p == "." {
		want = false
	}
	symCover("shouldskip")
	symAssert(got == want, "a directory is skipped iff its last path element is vendor, node_modules or starts with '.' or '_' (the root \".\" is never skipped)")
}
