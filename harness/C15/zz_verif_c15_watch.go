package watcher

import (
	"context"
	"io/fs"
	"path/filepath"
	"regexp"

	"github.com/fsnotify/fsnotify"
)

// Scripted directory listing presented to the WalkFiles callback in place of fs.WalkDir.
type verifEntry struct {
	path  string
	dir   bool
	depth int
}

func (e verifEntry) Name() string               { return filepath.Base(e.path) }
func (e verifEntry) IsDir() bool                { return e.dir }
func (e verifEntry) Type() fs.FileMode          { return 0 }
func (e verifEntry) Info() (fs.FileInfo, error) { return nil, nil }

var verifScript []verifEntry
var verifVisited []string

// verifWalkDir replaces io/fs.WalkDir: pre-order over verifScript, honouring SkipDir.
func verifWalkDir(fsys fs.FS, root string, fn fs.WalkDirFunc) error {
	skipBelow := -1
	for _, e := range verifScript {
		if skipBelow >= 0 {
			if e.depth > skipBelow {
				continue
			}
			skipBelow = -1
		}
		verifVisited = append(verifVisited, e.path)
		err := fn(e.path, e, nil)
		if err == filepath.SkipDir {
			if e.dir {
				skipBelow = e.depth
			}
			continue
		}
		if err != nil {
			return err
		}
	}
	return nil
}

func verifDirFS(dir string) fs.FS { return nil }

func verifAbs(p string) (string, error) {
	if len(p) > 0 && p[0] == '/' {
		return filepath.Clean(p), nil
	}
	return filepath.Join("/w", p), nil
}

var verifNameByte = func() (t [256]bool) {
	for _, c := range "._vgotx" {
		t[c] = true
	}
	return
}()

func verifName(tag string, max int) string {
	s := symString(tag, max)
	symAssume(len(s) > 0)
	ok := true
	for i := 0; i < len(s); i++ {
		ok = symAnd(ok, verifNameByte[s[i]])
	}
	symAssume(ok)
	symAssume(s != "." && s != "..")
	return s
}

// VerifC15Walk: which events the walk emits for a scripted tree with symbolic names.
func VerifC15Walk() {
	d := verifName("dir", symParam("N"))
	f := verifName("file", symParam("N")) + []string{".templ", ".go", ".txt", "_templ.go"}[symChoose(4)]
	g := verifName("top", symParam("N")) + []string{".templ", ".go", ".md"}[symChoose(3)]
	verifScript = []verifEntry{
		{".", true, 0},
		{d, true, 1},
		{d + "/" + f, false, 2},
		{d + "/sub", true, 2},
		{d + "/sub/deep.templ", false, 3},
		{g, false, 1},
	}
	verifVisited = nil
	out := make(chan fsnotify.Event, 16)
	pattern := regexp.MustCompile(`(.+\.go$)|(.+\.templ$)`)
	err := WalkFiles(context.Background(), "/w", pattern, out)
	symAssert(err == nil, "walk returns nil")
	close(out)
	var got []string
	for e := range out {
		symAssert(e.Op == fsnotify.Create, "events are Create events")
		got = append(got, e.Name)
	}
	// expected: files matching the pattern outside skipped directories
	skipD := d == "vendor" || d == "node_modules" || d[0] == '.' || d[0] == '_'
	matches := func(n string) bool {
		return (len(n) > 3 && n[len(n)-3:] == ".go") || (len(n) > 6 && n[len(n)-6:] == ".templ")
	}
	var want []string
	if !skipD {
		if matches("/w/" + d) {
			want = append(want, "/w/"+d) // a directory whose own name matches the pattern is reported too (as today)
		}
		if matches(f) {
			want = append(want, "/w/"+d+"/"+f)
		}
		want = append(want, "/w/"+d+"/sub/deep.templ")
	}
	if matches(g) {
		want = append(want, "/w/"+g)
	}
	symCover("walked")
	symAssert(len(got) == len(want), "exactly the matching files outside skipped directories produce events")
	if len(got) == len(want) {
		for i := range got {
			symAssert(got[i] == want[i], "event names are the absolute paths, in walk order")
		}
	}
	if skipD {
		for _, v := range verifVisited {
			symAssert(len(v) <= len(d) || v[:len(d)+1] != d+"/", "nothing below a skipped directory is visited")
		}
	}
}
