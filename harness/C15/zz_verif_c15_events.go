package generatecmd

import (
	"bytes"
	"context"
	"go/format"
	"io"
	"log/slog"
	"strings"

	"github.com/a-h/templ/generator"
	parser "github.com/a-h/templ/parser/v2"
	"github.com/fsnotify/fsnotify"
)

const verifC15Root = "/tmp/zzverif_c15"

var verifC15Long = "package p\n\ntempl Page(name string) {\n\t<html><body><h1>Hello, { name }</h1><p>one</p><p>two</p><p>three</p></body></html>\n}\n\ntempl Footer() {\n\t<footer>f</footer>\n}\n"
var verifC15Short = "package p\n\ntempl Page() {\n\t<p>x</p>\n}\n"

// verifC15Gen: the gofmt-formatted generation of one template on its own.
func verifC15Gen(src, rel string) string {
	tf, err := parser.ParseString(src)
	symAssert(err == nil, "reference: template parses")
	var b bytes.Buffer
	_, err = generator.Generate(tf, &b, generator.WithFileName(rel))
	symAssert(err == nil, "reference: template generates")
	out, err := format.Source(b.Bytes())
	symAssert(err == nil, "reference: generated code formats")
	return string(out)
}

// VerifC15Events: the per-file step of `templ generate` (FSEventHandler.HandleEvent with the real
// FileWriter) over a tree, the events delivered in a symbolic order: afterwards every template
// has a sibling _templ.go equal to its own generation - also for paths that differ only in
// letter case, also when a template was regenerated to something shorter - an orphaned _templ.go
// is gone unless kept by flag, a template that does not parse fails alone, and delivering the
// same events again changes nothing.
func VerifC15Events() {
	keep := symBool("keepOrphaned")
	files := []struct{ path, src string }{
		{verifC15Root + "/components/Card.templ", "package c\n\ntempl Card() {\n\t<div>Card</div>\n}\n"},
		{verifC15Root + "/components/card.templ", "package c\n\ntempl card() {\n\t<span>card</span>\n}\n"},
		{verifC15Root + "/page.templ", verifC15Long},
		{verifC15Root + "/broken.templ", "package p\n\ntempl Broken() {\n\t<div>\n}\n"},
	}
	for _, f := range files {
		symSetFile(f.path, f.src)
		symRemoveFile(strings.TrimSuffix(f.path, ".templ") + "_templ.go")
	}
	orphan := verifC15Root + "/old_templ.go"
	symSetFile(orphan, "package p\n")
	symRemoveFile(verifC15Root + "/old.templ")
	h := NewFSEventHandler(slog.New(slog.NewTextHandler(io.Discard, nil)), verifC15Root, false, nil, false, keep, FileWriter, false)
	ctx := context.Background()
	// the walk delivers the entries in some order
	order := []int{0, 1, 2, 3, 4}
	for i := 0; i < len(order)-1; i++ {
		j := i + symChoose(len(order)-i)
		order[i], order[j] = order[j], order[i]
	}
	first := true
	deliver := func() {
		for _, k := range order {
			if k == 4 {
				_, err := h.HandleEvent(ctx, fsnotify.Event{Name: orphan, Op: fsnotify.Create})
				symAssert(err == nil, "an orphaned file is handled without error")
				continue
			}
			_, err := h.HandleEvent(ctx, fsnotify.Event{Name: files[k].path, Op: fsnotify.Create})
			if k == 3 {
				// (an unchanged file delivered again to the same handler is skipped)
				symAssert(err != nil || !first, "a template that does not parse makes its event fail")
			} else {
				symAssert(err == nil, "a well-formed template is generated")
			}
		}
	}
	check := func(what string) {
		for k, f := range files {
			got, ok := symGetFile(strings.TrimSuffix(f.path, ".templ") + "_templ.go")
			if k == 3 {
				symAssert(!ok, what+": nothing is written for the template that does not parse")
				continue
			}
			symAssert(ok, what+": every template has a sibling _templ.go")
			symAssertEq(got, verifC15Gen(f.src, strings.TrimPrefix(f.path, verifC15Root+"/")), what+": the sibling file is the formatted generation of that template alone")
		}
		_, ok := symGetFile(orphan)
		symAssert(ok == keep, what+": an orphaned _templ.go is removed unless kept by flag")
		for _, f := range files {
			src, ok := symGetFile(f.path)
			symAssert(ok && src == f.src, what+": templates are not touched")
		}
	}
	deliver()
	first = false
	symCover("generated")
	check("first run")
	deliver()
	check("second run")
	// the page is edited to something much shorter and generated again
	symAdvanceClock(5000000)
	files[2].src = verifC15Short
	symSetFile(files[2].path, verifC15Short)
	deliver()
	check("after an edit")
}
