package runtime

type J struct {
	Kind byte
	Str  string
	Elts []J
}

func f(shape int, vv string) J {
	var want J
	switch shape {
	case 0:
		want = J{Kind: 's', Str: vv}
	case 1:
		want = J{Kind: 'a', Elts: []J{{Kind: 's', Str: vv}}}
	}
	return want
}

func f2(shape int, vv string) J {
	var want J
	if shape == 0 {
		want = J{Kind: 's', Str: vv}
	}
	return want
}

func f3(shape int, vv string) J {
	want := J{Kind: 's', Str: vv}
	return want
}

func VerifDbg2() {
	println("f", f(0, "x"))
	println("f2", f2(0, "x"))
	println("f3", f3(0, "x"))
}
