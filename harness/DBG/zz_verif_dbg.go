package generator

import (
	"bytes"

	parser "github.com/a-h/templ/parser/v2"
)

const dbgSeed = `package x

templ Hello(name string, b bool) {
	<div title={ name } class="c">
		if b {
			<b>{ name }</b>
		} else {
			x
		}
	</div>
}
`

func VerifDbg() {
	tf, err := parser.ParseString(dbgSeed)
	if err != nil {
		println("parse error", err.Error())
		return
	}
	var buf bytes.Buffer
	_, err = Generate(tf, &buf)
	if err != nil {
		println("gen error", err.Error())
		return
	}
	println(buf.String())
}
