package templ

import (
	"context"
	"net/http"
	"net/url"
)

type verifW struct{ b []byte }

func (r *verifW) Write(p []byte) (int, error) {
	r.b = append(r.b, p...)
	return len(p), nil
}

func verifHas(seen []string, s string) bool {
	for _, x := range seen {
		if x == s {
			return true
		}
	}
	return false
}

// VerifC12ScriptsStep: one RenderScriptItems / ComponentScript.Render from an arbitrary
// context state (inductive step over the invariant "the context set holds exactly the names
// emitted so far").
func VerifC12ScriptsStep() {
	names := [2]string{symString("n0", symParam("N")), symString("n1", symParam("N"))}
	scripts := [2]ComponentScript{
		{Name: names[0], Function: "function f0(){}", Call: "f0()", CallInline: "f0()"},
		{Name: names[1], Function: "function f1(){}", Call: "f1()", CallInline: "f1()"},
	}
	ctx := InitializeContext(context.Background())
	_, v := getContext(ctx)
	var seen []string
	for i := range names {
		if symBool("pre" + string(rune('0'+i))) {
			v.addScript(names[i])
			if !verifHas(seen, names[i]) {
				seen = append(seen, names[i])
			}
		}
	}
	k := symChoose(symParam("USES") + 1)
	uses := make([]ComponentScript, k)
	for i := range uses {
		uses[i] = scripts[symChoose(2)]
	}
	asComponent := k == 1 && symBool("asComponent")
	w := &verifW{}
	var err error
	if asComponent {
		err = uses[0].Render(ctx, w)
	} else {
		err = RenderScriptItems(ctx, w, uses...)
	}
	symAssert(err == nil, "no error")
	defs := ""
	for _, u := range uses {
		if !verifHas(seen, u.Name) {
			defs += u.Function
			seen = append(seen, u.Name)
		}
	}
	want := ""
	if defs != "" {
		want = "<script>" + defs + "</script>"
	}
	if asComponent {
		want += "<script>" + uses[0].CallInline + "</script>" // every use still gets its call
	}
	symCover("scripts-step")
	symAssertEq(string(w.b), want, "scripts: each not-yet-emitted definition exactly once, in first-use order, before the call")
	for i := range names {
		symAssert(v.hasScriptBeenRendered(names[i]) == verifHas(seen, names[i]), "scripts: post-state = pre-state plus the names used")
	}
}

func verifClassForm(form int, c ComponentCSSClass, on bool) any {
	switch form {
	case 0:
		return c
	case 1:
		return KV(c, on)
	case 2:
		return KV(CSSClass(c), on)
	case 3:
		return CSSClasses{c, "plain"}
	case 4:
		return []CSSClass{c}
	case 5:
		return func() CSSClass { return c }
	}
	return "just-a-name"
}

// VerifC12CSSStep: one RenderCSSItems with every supported container form.
func VerifC12CSSStep() {
	ids := [2]string{symString("id0", symParam("N")), symString("id1", symParam("N"))}
	classes := [2]ComponentCSSClass{{ID: ids[0], Class: SafeCSS(".a{color:red;}")}, {ID: ids[1], Class: SafeCSS(".b{color:blue;}")}}
	ctx := InitializeContext(context.Background())
	_, v := getContext(ctx)
	var seen []string
	for i := range ids {
		if symBool("pre" + string(rune('0'+i))) {
			v.addClass(ids[i])
			if !verifHas(seen, ids[i]) {
				seen = append(seen, ids[i])
			}
		}
	}
	k := symChoose(symParam("USES") + 1)
	items := make([]any, k)
	defs := ""
	for i := range items {
		which := symChoose(2)
		form := symChoose(7)
		on := symBool("on" + string(rune('0'+i)))
		items[i] = verifClassForm(form, classes[which], on)
		used := form == 0 || form == 3 || form == 4 || form == 5 || ((form == 1 || form == 2) && on)
		if used && !verifHas(seen, ids[which]) {
			defs += string(classes[which].Class)
			seen = append(seen, ids[which])
		}
	}
	w := &verifW{}
	err := RenderCSSItems(ctx, w, items...)
	symAssert(err == nil, "no error")
	want := ""
	if defs != "" {
		want = "<style type=\"text/css\">" + defs + "</style>"
	}
	symCover("css-step")
	symAssertEq(string(w.b), want, "css: each not-yet-emitted rule exactly once, in first-use order")
	for i := range ids {
		symAssert(v.hasClassBeenRendered(ids[i]) == verifHas(seen, ids[i]), "css: post-state = pre-state plus the classes used")
	}
	// every use still gets its class name
	symAssert(Classes(classes[0]).String() == ids[0], "css: a use yields the class name")
}

// VerifC12OnceStep: one OnceHandle render from an arbitrary state, with child block or fixed
// component, in one of two independent contexts.
func VerifC12OnceStep() {
	block := Raw("<blk>")
	fixed := Raw("<fix>")
	handles := [2]*OnceHandle{NewOnceHandle(), NewOnceHandle(WithComponent(fixed))}
	if symBool("plainHandles") {
		// handles that were not made by the constructor (zero-value struct fields, &OnceHandle{})
		// are distinct handles all the same
		handles = [2]*OnceHandle{{}, {c: fixed}}
	}
	ctxs := [2]context.Context{InitializeContext(context.Background()), InitializeContext(context.Background())}
	var pre [2][2]bool
	for c := range ctxs {
		_, v := getContext(ctxs[c])
		for h := range handles {
			pre[c][h] = symBool("pre" + string(rune('0'+c)) + string(rune('0'+h)))
			if pre[c][h] {
				v.setHasBeenRendered(handles[h])
			}
		}
	}
	c, h := symChoose(2), symChoose(2)
	w := &verifW{}
	err := handles[h].Once().Render(WithChildren(ctxs[c], block), w)
	symAssert(err == nil, "no error")
	want := ""
	if !pre[c][h] {
		want = []string{"<blk>", "<fix>"}[h]
	}
	symCover("once-step")
	symAssertEq(string(w.b), want, "once: content is emitted iff this handle was not yet rendered in this context")
	for cc := range ctxs {
		_, v := getContext(ctxs[cc])
		for hh := range handles {
			symAssert(v.getHasBeenRendered(handles[hh]) == (pre[cc][hh] || (cc == c && hh == h)), "once: only this handle in this context changes state")
		}
	}
}

// VerifC12History: bounded histories from the empty context, two contexts interleaved.
func VerifC12History() {
	s := [2]ComponentScript{{Name: "s0", Function: "F0;", Call: "c0", CallInline: "c0"}, {Name: "s1", Function: "F1;", Call: "c1", CallInline: "c1"}}
	cl := [2]ComponentCSSClass{{ID: "k0", Class: ".k0{}"}, {ID: "k1", Class: ".k1{}"}}
	hs := [2]*OnceHandle{NewOnceHandle(), NewOnceHandle()}
	if symBool("plainHandles") {
		hs = [2]*OnceHandle{{}, new(OnceHandle)}
	}
	ctxs := [2]context.Context{InitializeContext(context.Background()), InitializeContext(context.Background())}
	ws := [2]*verifW{{}, {}}
	var derived [2]context.Context
	var count [2][6]int // per context: definitions emitted of s0,s1,k0,k1,h0,h1
	var first [2][6]bool
	steps := symParam("STEPS")
	for i := 0; i < steps; i++ {
		c := symChoose(2)
		if derived[c] == nil && symBool("nonce"+string(rune('0'+i))) {
			// a nonce set part-way down the tree (e.g. by one component for its subtree): the
			// derived context and the original one are still the same rendering context
			derived[c] = WithNonce(ctxs[c], "n")
		}
		use := ctxs[c]
		if derived[c] != nil && symBool("sub"+string(rune('0'+i))) {
			use = derived[c]
		}
		op := symChoose(6)
		before := len(ws[c].b)
		var err error
		switch {
		case op < 2:
			err = RenderScriptItems(use, ws[c], s[op], s[op])
		case op < 4:
			err = RenderCSSItems(use, ws[c], cl[op-2], KV(cl[op-2], true))
		default:
			err = hs[op-4].Once().Render(WithChildren(use, Raw("<once"+string(rune('0'+op-4))+">")), ws[c])
		}
		symAssert(err == nil, "no error")
		emitted := string(ws[c].b[before:])
		open := "<script>"
		if GetNonce(use) != "" {
			open = "<script nonce=\"n\">"
		}
		def := [6]string{open + "F0;</script>", open + "F1;</script>", "<style type=\"text/css\">.k0{}</style>", "<style type=\"text/css\">.k1{}</style>", "<once0>", "<once1>"}[op]
		if !first[c][op] {
			first[c][op] = true
			symAssert(emitted == def, "history: the first use in a context emits the definition, exactly once")
			count[c][op]++
		} else {
			symAssert(emitted == "", "history: later uses in the same context emit nothing")
		}
	}
	symCover("history")
}

// VerifC12Middleware: classes registered with the CSS middleware are served by the
// stylesheet endpoint and never inlined.
func VerifC12Middleware() {
	cl := [2]ComponentCSSClass{{ID: "k0", Class: ".k0{}"}, {ID: "k1", Class: ".k1{}"}}
	var reg []CSSClass
	var isReg [2]bool
	for i := range cl {
		isReg[i] = symBool("reg" + string(rune('0'+i)))
		if isReg[i] {
			reg = append(reg, cl[i])
		}
	}
	page := &verifW{}
	sc := ComponentScript{Name: "s0", Function: "F0;", Call: "c0", CallInline: "c0"}
	next := http.HandlerFunc(func(w http.ResponseWriter, r *http.Request) {
		_ = RenderCSSItems(r.Context(), page, cl[0], cl[1], cl[0])
		_ = RenderScriptItems(r.Context(), page, sc)
	})
	mw := NewCSSMiddleware(next, reg...)
	mw.ServeHTTP(&verifRWc12{hdr: http.Header{}}, &http.Request{URL: &url.URL{Path: "/page"}})
	want := ""
	for i := range cl {
		if !isReg[i] {
			want += string(cl[i].Class)
		}
	}
	if want != "" {
		want = "<style type=\"text/css\">" + want + "</style>"
	}
	want += "<script>F0;</script>"
	symCover("middleware")
	symAssertEq(string(page.b), want, "middleware: registered classes are never inlined, the others once")
	// every request is a rendering context of its own: later pages get their definitions too
	for i := 0; i < 2; i++ {
		page.b = nil
		mw.ServeHTTP(&verifRWc12{hdr: http.Header{}}, &http.Request{URL: &url.URL{Path: "/page"}})
		symAssertEq(string(page.b), want, "middleware: a later request through the same middleware renders the same page")
	}
	sheet := &verifRWc12{hdr: http.Header{}}
	mw.ServeHTTP(sheet, &http.Request{URL: &url.URL{Path: "/styles/templ.css"}})
	wantSheet := ""
	for i := range cl {
		if isReg[i] {
			wantSheet += string(cl[i].Class)
		}
	}
	symAssertEq(string(sheet.body), wantSheet, "middleware: the stylesheet endpoint serves exactly the registered classes")
	symAssert(sheet.hdr.Get("Content-Type") == "text/css", "middleware: stylesheet content type")
}

type verifRWc12 struct {
	hdr  http.Header
	body []byte
}

func (w *verifRWc12) Header() http.Header { return w.hdr }
func (w *verifRWc12) WriteHeader(int)     {}
func (w *verifRWc12) Write(p []byte) (int, error) {
	w.body = append(w.body, p...)
	return len(p), nil
}
