package PKGNAME

// Reference HTML5 tokenizer fragments used as oracles (WHATWG HTML, section 13.2.5):
// character-reference decoding for the references an escaper may emit, the data state
// (text runs), and the start-tag states from "tag open" to "after attribute value (quoted)".
// Written independently of the code under test.

type verifAttr struct {
	Name  string
	Value string
	HasEq bool
}

type verifTag struct {
	Name  string
	Attrs []verifAttr
	End   int  // index just past '>'
	OK    bool // a complete start tag was read
	Bad   string
}

func verifIsAlnum(c byte) bool {
	return (c >= '0' && c <= '9') || (c >= 'a' && c <= 'z') || (c >= 'A' && c <= 'Z')
}

func verifIsSpace(c byte) bool {
	return c == ' ' || c == '\t' || c == '\n' || c == '\f' || c == '\r'
}

// verifDecodeRef decodes a character reference starting at s[i] == '&'.
// It returns the decoded bytes, the index after the reference, and ok=false when the text
// after '&' could be a reference this oracle does not know (treated as a failure by callers:
// the value would not arrive verbatim).
func verifDecodeRef(s string, i int) (out string, next int, ok bool) {
	rest := s[i+1:]
	if len(rest) == 0 {
		return "&", i + 1, true
	}
	c := rest[0]
	if c == '#' {
		j := 1
		val := 0
		digits := 0
		if j < len(rest) && (rest[j] == 'x' || rest[j] == 'X') {
			j++
			for j < len(rest) && digits < 4 {
				d := rest[j]
				switch {
				case d >= '0' && d <= '9':
					val = val*16 + int(d-'0')
				case d >= 'a' && d <= 'f':
					val = val*16 + int(d-'a') + 10
				case d >= 'A' && d <= 'F':
					val = val*16 + int(d-'A') + 10
				default:
					goto doneHex
				}
				j++
				digits++
			}
		doneHex:
		} else {
			for j < len(rest) && digits < 4 && rest[j] >= '0' && rest[j] <= '9' {
				val = val*10 + int(rest[j]-'0')
				j++
				digits++
			}
		}
		if digits == 0 || j >= len(rest) || rest[j] != ';' || val == 0 || val >= 0x80 {
			return "", 0, false
		}
		return string([]byte{byte(val)}), i + 1 + j + 1, true
	}
	if !verifIsAlnum(c) {
		return "&", i + 1, true // not a reference: literal ampersand
	}
	names := [...]struct {
		n string
		v byte
	}{{"amp;", '&'}, {"lt;", '<'}, {"gt;", '>'}, {"quot;", '"'}, {"apos;", '\''}}
	for _, e := range names {
		if len(rest) >= len(e.n) && rest[:len(e.n)] == e.n {
			return string([]byte{e.v}), i + 1 + len(e.n), true
		}
	}
	return "", 0, false
}

// verifDecodeText decodes a run of text / an attribute value: character references are
// replaced; ok=false if an unknown reference appears.
func verifDecodeText(s string) (string, bool) {
	out := make([]byte, 0, len(s))
	for i := 0; i < len(s); {
		if s[i] == '&' {
			d, next, ok := verifDecodeRef(s, i)
			if !ok {
				return "", false
			}
			out = append(out, d...)
			i = next
			continue
		}
		out = append(out, s[i])
		i++
	}
	return string(out), true
}

// verifStartTag tokenizes one start tag at h[i] == '<'.
func verifStartTag(h string, i int) verifTag {
	var t verifTag
	if i >= len(h) || h[i] != '<' {
		t.Bad = "no '<'"
		return t
	}
	i++
	// tag name state
	st := i
	for i < len(h) && !verifIsSpace(h[i]) && h[i] != '/' && h[i] != '>' {
		i++
	}
	t.Name = h[st:i]
	if len(t.Name) == 0 || !((t.Name[0] >= 'a' && t.Name[0] <= 'z') || (t.Name[0] >= 'A' && t.Name[0] <= 'Z')) {
		t.Bad = "tag name"
		return t
	}
	for {
		// before attribute name
		for i < len(h) && (verifIsSpace(h[i]) || h[i] == '/') {
			i++
		}
		if i >= len(h) {
			t.Bad = "eof in tag"
			return t
		}
		if h[i] == '>' {
			t.End = i + 1
			t.OK = true
			return t
		}
		// attribute name state
		st = i
		if h[i] == '=' {
			i++ // a leading '=' is part of the name (parse error, still a name)
		}
		for i < len(h) && !verifIsSpace(h[i]) && h[i] != '/' && h[i] != '>' && h[i] != '=' {
			i++
		}
		a := verifAttr{Name: h[st:i]}
		// after attribute name
		for i < len(h) && verifIsSpace(h[i]) {
			i++
		}
		if i < len(h) && h[i] == '=' {
			a.HasEq = true
			i++
			for i < len(h) && verifIsSpace(h[i]) {
				i++
			}
			if i >= len(h) {
				t.Bad = "eof before value"
				return t
			}
			if h[i] == '"' || h[i] == '\'' {
				q := h[i]
				i++
				st = i
				for i < len(h) && h[i] != q {
					i++
				}
				if i >= len(h) {
					t.Bad = "eof in quoted value"
					return t
				}
				v, ok := verifDecodeText(h[st:i])
				if !ok {
					t.Bad = "unknown character reference in value"
					return t
				}
				a.Value = v
				i++
				// after attribute value (quoted): must be space, '/', or '>'
				if i < len(h) && !verifIsSpace(h[i]) && h[i] != '/' && h[i] != '>' {
					t.Bad = "missing whitespace between attributes"
					return t
				}
			} else {
				st = i
				for i < len(h) && !verifIsSpace(h[i]) && h[i] != '>' {
					i++
				}
				v, ok := verifDecodeText(h[st:i])
				if !ok {
					t.Bad = "unknown character reference in value"
					return t
				}
				a.Value = v
			}
		}
		t.Attrs = append(t.Attrs, a)
	}
}

// verifTextRun reads the data state from h[i] up to the next '<' or the end and returns
// the decoded text.
func verifTextRun(h string, i int) (text string, next int, ok bool) {
	st := i
	for i < len(h) && h[i] != '<' {
		i++
	}
	t, ok := verifDecodeText(h[st:i])
	return t, i, ok
}

// verifRec is a recording io.Writer.
type verifRec struct{ b []byte }

func (r *verifRec) Write(p []byte) (int, error) {
	r.b = append(r.b, p...)
	return len(p), nil
}

func (r *verifRec) WriteString(s string) (int, error) {
	r.b = append(r.b, s...)
	return len(s), nil
}
