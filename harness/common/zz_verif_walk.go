package parser

// Generic walk over a parsed template file collecting every Go expression and every
// element/attribute name range (exported: used by harnesses of other packages too).

type VerifExpr struct {
	Expr Expression
	Slot string
}

type VerifName struct {
	Name  string
	Range Range
	What  string
}

type VerifWalk struct {
	Exprs []VerifExpr
	Names []VerifName
}

func (w *VerifWalk) expr(e Expression, slot string) {
	w.Exprs = append(w.Exprs, VerifExpr{e, slot})
}

func VerifCollect(tf TemplateFile) *VerifWalk {
	w := &VerifWalk{}
	for _, h := range tf.Header {
		w.expr(h.Expression, "header-go")
	}
	w.expr(tf.Package.Expression, "package")
	for _, n := range tf.Nodes {
		switch n := n.(type) {
		case TemplateFileGoExpression:
			w.expr(n.Expression, "top-level-go")
		case HTMLTemplate:
			w.expr(n.Expression, "templ-signature")
			w.nodes(n.Children)
		case CSSTemplate:
			w.expr(n.Expression, "css-signature")
			for _, p := range n.Properties {
				if ep, ok := p.(ExpressionCSSProperty); ok {
					w.expr(ep.Value.Expression, "css-value")
				}
			}
		case ScriptTemplate:
			w.expr(n.Name, "script-name")
			w.expr(n.Parameters, "script-params")
		}
	}
	return w
}

func (w *VerifWalk) attrs(as []Attribute) {
	for _, a := range as {
		switch a := a.(type) {
		case BoolConstantAttribute:
			w.Names = append(w.Names, VerifName{a.Name, a.NameRange, "bool-constant-attribute"})
		case ConstantAttribute:
			w.Names = append(w.Names, VerifName{a.Name, a.NameRange, "constant-attribute"})
		case BoolExpressionAttribute:
			w.Names = append(w.Names, VerifName{a.Name, a.NameRange, "bool-expression-attribute"})
			w.expr(a.Expression, "bool-attribute")
		case ExpressionAttribute:
			w.Names = append(w.Names, VerifName{a.Name, a.NameRange, "expression-attribute"})
			w.expr(a.Expression, "attribute")
		case SpreadAttributes:
			w.expr(a.Expression, "spread")
		case ConditionalAttribute:
			w.expr(a.Expression, "conditional-attribute")
			w.attrs(a.Then)
			w.attrs(a.Else)
		}
	}
}

func (w *VerifWalk) nodes(ns []Node) {
	for _, n := range ns {
		switch n := n.(type) {
		case Element:
			w.Names = append(w.Names, VerifName{n.Name, n.NameRange, "element"})
			w.attrs(n.Attributes)
			w.nodes(n.Children)
		case RawElement:
			w.attrs(n.Attributes)
		case ScriptElement:
			w.attrs(n.Attributes)
			for _, c := range n.Contents {
				if c.GoCode != nil {
					w.expr(c.GoCode.Expression, "script-go")
				}
			}
		case CallTemplateExpression:
			w.expr(n.Expression, "call")
		case TemplElementExpression:
			w.expr(n.Expression, "templ-element")
			w.nodes(n.Children)
		case IfExpression:
			w.expr(n.Expression, "if")
			w.nodes(n.Then)
			for _, ei := range n.ElseIfs {
				w.expr(ei.Expression, "else-if")
				w.nodes(ei.Then)
			}
			w.nodes(n.Else)
		case SwitchExpression:
			w.expr(n.Expression, "switch")
			for _, c := range n.Cases {
				w.expr(c.Expression, "case")
				w.nodes(c.Children)
			}
		case ForExpression:
			w.expr(n.Expression, "for")
			w.nodes(n.Children)
		case GoCode:
			w.expr(n.Expression, "go-code")
		case StringExpression:
			w.expr(n.Expression, "string")
		}
	}
}
