package PKGNAME

// Reference ECMAScript lexing of string literals and no-substitution templates
// (ECMA-262 12.9.4, 12.9.6) and a reference JSON reader, written independently of the code
// under test. Decoding works on bytes: \uXXXX escapes are turned into the UTF-8 encoding of
// the code point, raw bytes pass through.

var verifHexTab = func() (t [256]int8) {
	for i := range t {
		t[i] = -1
	}
	for c := '0'; c <= '9'; c++ {
		t[c] = int8(c - '0')
	}
	for c := 'a'; c <= 'f'; c++ {
		t[c] = int8(c-'a') + 10
		t[c-32] = int8(c-'a') + 10
	}
	return
}()

func verifHexVal(c byte) int { return int(verifHexTab[c]) }

func verifAppendRune(out []byte, r int) []byte {
	switch {
	case r < 0x80:
		return append(out, byte(r))
	case r < 0x800:
		return append(out, byte(0xC0|r>>6), byte(0x80|r&0x3F))
	case r < 0x10000:
		return append(out, byte(0xE0|r>>12), byte(0x80|(r>>6)&0x3F), byte(0x80|r&0x3F))
	}
	return append(out, byte(0xF0|r>>18), byte(0x80|(r>>12)&0x3F), byte(0x80|(r>>6)&0x3F), byte(0x80|r&0x3F))
}

// verifJSLiteral lexes lit, which must be exactly one string literal (q = ' or ") or one
// template literal without substitutions (q = `). It returns the literal's value as bytes.
func verifJSLiteral(lit string, q byte) (val string, why string) {
	if len(lit) < 2 || lit[0] != q {
		return "", "does not start with the quote"
	}
	out := make([]byte, 0, len(lit))
	i := 1
	for {
		if i >= len(lit) {
			return "", "unterminated literal"
		}
		c := lit[i]
		if c == q {
			if i != len(lit)-1 {
				return "", "literal ends before the closing quote the author wrote"
			}
			return string(out), ""
		}
		if c == '\\' {
			i++
			if i >= len(lit) {
				return "", "backslash at end"
			}
			e := lit[i]
			switch e {
			case 'n':
				out = append(out, '\n')
			case 't':
				out = append(out, '\t')
			case 'r':
				out = append(out, '\r')
			case 'b':
				out = append(out, '\b')
			case 'f':
				out = append(out, '\f')
			case 'v':
				out = append(out, '\v')
			case '0':
				if i+1 < len(lit) && lit[i+1] >= '0' && lit[i+1] <= '9' {
					return "", "legacy octal escape"
				}
				out = append(out, 0)
			case 'x':
				if i+2 >= len(lit) || verifHexVal(lit[i+1]) < 0 || verifHexVal(lit[i+2]) < 0 {
					return "", "bad \\x escape"
				}
				out = verifAppendRune(out, verifHexVal(lit[i+1])*16+verifHexVal(lit[i+2]))
				i += 2
			case 'u':
				if i+4 >= len(lit) {
					return "", "bad \\u escape"
				}
				r := 0
				for k := 1; k <= 4; k++ {
					h := verifHexVal(lit[i+k])
					if h < 0 {
						return "", "bad \\u escape"
					}
					r = r*16 + h
				}
				if r >= 0xD800 && r <= 0xDFFF {
					return "", "surrogate escape (not modelled)"
				}
				out = verifAppendRune(out, r)
				i += 4
			case '\n':
				// line continuation: contributes nothing
			case '\r':
				if i+1 < len(lit) && lit[i+1] == '\n' {
					i++
				}
			case '1', '2', '3', '4', '5', '6', '7', '8', '9':
				return "", "octal / decimal escape"
			default:
				// NonEscapeCharacter (includes \/ \' \" \` \\ \$): the character itself
				out = append(out, e)
			}
			i++
			continue
		}
		if q != '`' && (c == '\n' || c == '\r') {
			return "", "raw line terminator inside a string literal"
		}
		if q == '`' {
			if c == '$' && i+1 < len(lit) && lit[i+1] == '{' {
				return "", "template literal interpolation opened"
			}
			if c == '\r' {
				// template values normalise CR LF and CR to LF
				out = append(out, '\n')
				if i+1 < len(lit) && lit[i+1] == '\n' {
					i++
				}
				i++
				continue
			}
		}
		out = append(out, c)
		i++
	}
}

// verifScriptSafe: content of a script element must not be able to close it or open a comment.
func verifScriptSafe(e string) bool {
	ok := true
	for i := 0; i+1 < len(e); i++ {
		if e[i] == '<' && (e[i+1] == '/' || e[i+1] == '!') {
			ok = false
		}
	}
	return ok
}

func verifHasByte(e string, c byte) bool {
	found := false
	for i := 0; i < len(e); i++ {
		if e[i] == c {
			found = true
		}
	}
	return found
}

// verifToValidUTF8 replaces every byte that is not part of a valid UTF-8 sequence by U+FFFD
// (what encoding/json and a browser's decoder both do, byte-wise maximal-subpart policy of Go).
func verifToValidUTF8(s string) string {
	out := make([]byte, 0, len(s)+8)
	for i := 0; i < len(s); {
		c := s[i]
		n := 0
		switch {
		case c < 0x80:
			n = 1
		case c >= 0xC2 && c <= 0xDF:
			if i+1 < len(s) && s[i+1]&0xC0 == 0x80 {
				n = 2
			}
		case c >= 0xE0 && c <= 0xEF:
			if i+2 < len(s) && s[i+1]&0xC0 == 0x80 && s[i+2]&0xC0 == 0x80 {
				lo, hi := byte(0x80), byte(0xBF)
				if c == 0xE0 {
					lo = 0xA0
				}
				if c == 0xED {
					hi = 0x9F
				}
				if s[i+1] >= lo && s[i+1] <= hi {
					n = 3
				}
			}
		case c >= 0xF0 && c <= 0xF4:
			if i+3 < len(s) && s[i+1]&0xC0 == 0x80 && s[i+2]&0xC0 == 0x80 && s[i+3]&0xC0 == 0x80 {
				lo, hi := byte(0x80), byte(0xBF)
				if c == 0xF0 {
					lo = 0x90
				}
				if c == 0xF4 {
					hi = 0x8F
				}
				if s[i+1] >= lo && s[i+1] <= hi {
					n = 4
				}
			}
		}
		if n == 0 {
			out = append(out, 0xEF, 0xBF, 0xBD)
			i++
			continue
		}
		out = append(out, s[i:i+n]...)
		i += n
	}
	return string(out)
}

// ---- reference JSON reader (objects, arrays, strings, integers, true/false/null) ----

type verifJSON struct {
	Kind byte // 's' string, 'n' number, 't' true, 'f' false, 'z' null, 'a' array, 'o' object
	Str  string
	Keys []string
	Elts []verifJSON
}

func verifJSONParse(s string) (v verifJSON, ok bool) {
	v, i, ok := verifJSONValue(s, 0)
	if !ok || i != len(s) {
		return v, false
	}
	return v, true
}

func verifJSONValue(s string, i int) (verifJSON, int, bool) {
	if i >= len(s) {
		return verifJSON{}, i, false
	}
	switch c := s[i]; {
	case c == '"':
		j := i + 1
		for j < len(s) && s[j] != '"' {
			if s[j] == '\\' {
				j++
			}
			j++
		}
		if j >= len(s) {
			return verifJSON{}, i, false
		}
		val, why := verifJSLiteral(s[i:j+1], '"')
		if why != "" {
			return verifJSON{}, i, false
		}
		return verifJSON{Kind: 's', Str: val}, j + 1, true
	case c == '[':
		v := verifJSON{Kind: 'a'}
		i++
		if i < len(s) && s[i] == ']' {
			return v, i + 1, true
		}
		for {
			e, j, ok := verifJSONValue(s, i)
			if !ok {
				return v, i, false
			}
			v.Elts = append(v.Elts, e)
			i = j
			if i < len(s) && s[i] == ',' {
				i++
				continue
			}
			if i < len(s) && s[i] == ']' {
				return v, i + 1, true
			}
			return v, i, false
		}
	case c == '{':
		v := verifJSON{Kind: 'o'}
		i++
		if i < len(s) && s[i] == '}' {
			return v, i + 1, true
		}
		for {
			k, j, ok := verifJSONValue(s, i)
			if !ok || k.Kind != 's' || j >= len(s) || s[j] != ':' {
				return v, i, false
			}
			e, j2, ok := verifJSONValue(s, j+1)
			if !ok {
				return v, i, false
			}
			v.Keys = append(v.Keys, k.Str)
			v.Elts = append(v.Elts, e)
			i = j2
			if i < len(s) && s[i] == ',' {
				i++
				continue
			}
			if i < len(s) && s[i] == '}' {
				return v, i + 1, true
			}
			return v, i, false
		}
	case c == '-' || (c >= '0' && c <= '9'):
		j := i + 1
		for j < len(s) && s[j] >= '0' && s[j] <= '9' {
			j++
		}
		return verifJSON{Kind: 'n', Str: s[i:j]}, j, true
	}
	for _, w := range [...]struct {
		t string
		k byte
	}{{"true", 't'}, {"false", 'f'}, {"null", 'z'}} {
		if len(s)-i >= len(w.t) && s[i:i+len(w.t)] == w.t {
			return verifJSON{Kind: w.k}, i + len(w.t), true
		}
	}
	return verifJSON{}, i, false
}
