package PKGNAME

import (
	"bytes"

	parser "github.com/a-h/templ/parser/v2"
)

// Seeds for the formatter checks. '§' marks a gap that is filled with symbolic whitespace;
// '¤' marks a text position filled with a symbolic byte.
var verifFmtSeeds = []string{
	// 0: single-line element with expression, text and inline elements
	"package p\n\ntempl a(s string) {§<div class=\"c\"§title={ s }>§x§{ s }§<b>y</b>§z¤</div>§}\n",
	// 1: control flow, children, component call
	"package p\n\ntempl b(b bool) {\n\tif b {§<i>t</i>§} else {§u§}\n\t@c() {§<p>k</p>§}\n}\n\ntempl c() {§<em>\n\t\t{ children... }\n\t</em>§}\n",
	// 2: comments, script/style, void elements, attribute quoting with character references
	"package p\n\ntempl d() {\n\t<!-- c -->§<br/>§<input value='a&amp;b\"'§disabled>§<style>p{}</style>§<script>var a = 1;</script>\n}\n",
	// 3: for, switch, multi-line expression, Go code
	"package p\n\ntempl e(xs []string) {\n\tfor _, x := range xs {§{ x }§}\n\tswitch len(xs) {§case 0:§<a>n</a>§default:§m¤\n\t}\n\t{{ y := 1 }}§{ fmt.Sprint(\n\t\ty,\n\t) }\n}\n",
	// 4: single-line elements holding a children slot / a component call (the shape of the
	// known findings C08/C09-single-line-element-with-child-lacking-trailing-space)
	"package p\n\ntempl f() {§<em>{ children... }</em>§<span>@f()</span>§}\n",
	// 5: Go value inside a script element followed by whitespace (kept verbatim by the generator)
	"package p\n\ntempl g(d string) {\n\t<script>let a = {{ d }}§let b = 2; let c = {{ d }} + 1;</script>§<p>x</p>\n}\n",
	// 6: inline elements with multi-line children directly followed by text / another inline element
	"package p\n\ntempl h(n string) {\n\t<div>\n\t\t<a>\n\t\t\tx\n\t\t</a>.§<span>\n\t\t\ty\n\t\t</span><b>c</b>§<em>\n\t\t\tz\n\t\t</em>{ n }\n\t</div>\n}\n",
	// 7: raw Go code followed by content on the same line inside a single-line element
	"package p\n\ntempl i(xs []string) {§<div>{{ first := xs[0] }}{ first }</div>§}\n",
	// 8: attribute expression ending in a block comment, expression with trailing comment
	"package p\n\ntempl j(c string) {§<div class={ \"a\", c /* extra */ }>{ c }</div>§}\n",
	// 9: constant attribute values ('¶' = A symbolic bytes over the alphabet of character
	// references and quotes), double-quoted, single-quoted and unquoted
	"package p\n\ntempl k() {\n\t<a title=\"¶\">t</a> <a title='¶'>u</a>\n}\n",
	// 10: else-if chains with branches that may be empty
	"package p\n\ntempl l(a, b, c bool) {\n\tif a {\n§<i>A</i>§} else if b {\n§} else if c {\n§<i>C</i>§} else {\n§<i>D</i>§}\n}\n",
	// 11: legacy call syntax inside a single-line element, followed on the same line by an expression
	"package p\n\ntempl m(name string) {§<button>{! icon(\"save\") }§{ name }</button>§}\n",
	// 12: script template whose body ends in white space before the closing brace (the function
	// name is derived from a hash of the body)
	"package p\n\nscript g(a string) {\n\talert(a);§}\n\ntempl n() {\n\t<button onclick={ g(\"x\") }>b</button>\n}\n",
	// 13: attribute expression spanning several lines, closing brace on the last element's line
	"package p\n\ntempl o(c bool) {§<div class={ \"a\",\n\t\ttempl.KV(\"b\", c) }>x</div>§<a onclick={ do(c,\n\t\t\t\"y\") }>z</a>§}\n",
}

// verifFill replaces the markers of a seed: gap g (in order) by gaps[g], text marker by text,
// attribute-value marker by attr.
func verifFill(seed string, gaps []string, text, attr string) string {
	out := make([]byte, 0, len(seed)+8)
	g := 0
	for i := 0; i < len(seed); i++ {
		if seed[i] == 0xC2 && i+1 < len(seed) && (seed[i+1] == 0xA7 || seed[i+1] == 0xA4 || seed[i+1] == 0xB6) {
			if seed[i+1] == 0xB6 {
				out = append(out, attr...)
			} else if seed[i+1] == 0xA7 {
				if g < len(gaps) {
					out = append(out, gaps[g]...)
				}
				g++
			} else {
				out = append(out, text...)
			}
			i++
			continue
		}
		out = append(out, seed[i])
	}
	return string(out)
}

// the bytes character references and quoting are made of
var verifAttrAlphabet = func() (t [256]bool) {
	for _, c := range []byte("&#;349\"'ax") {
		t[c] = true
	}
	return
}()

func verifHasAttrMarker(seed string) bool {
	for i := 0; i+1 < len(seed); i++ {
		if seed[i] == 0xC2 && seed[i+1] == 0xB6 {
			return true
		}
	}
	return false
}

func verifCountGaps(seed string) int {
	n := 0
	for i := 0; i+1 < len(seed); i++ {
		if seed[i] == 0xC2 && seed[i+1] == 0xA7 {
			n++
		}
	}
	return n
}

func verifWS(name string, max int) string {
	s := symString(name, max)
	for i := 0; i < len(s); i++ {
		symAssume(s[i] == ' ' || s[i] == '\n' || s[i] == '\t' || s[i] == '\r')
	}
	return s
}

// verifSymbolicInput builds an input from a seed: G of its gaps (chosen symbolically) get
// symbolic whitespace of length <= 2, the others a single space; the text marker gets
// T symbolic bytes.
func verifSymbolicInput() string {
	seed := verifFmtSeeds[symChoose(len(verifFmtSeeds))]
	if only := symParam("SEED"); only >= 0 {
		seed = verifFmtSeeds[only]
	}
	n := verifCountGaps(seed)
	gaps := make([]string, n)
	for i := range gaps {
		gaps[i] = " "
	}
	g := symParam("G")
	first := 0
	if n > g {
		first = symChoose(n - g + 1)
	}
	for k := 0; k < g && first+k < n; k++ {
		gaps[first+k] = verifWS("gap"+string(rune('0'+k)), 2)
	}
	text := symString("text", symParam("T"))
	attr := ""
	if verifHasAttrMarker(seed) {
		attr = symString("attr", symParam("A"))
		for i := 0; i < len(attr); i++ {
			symAssume(verifAttrAlphabet[attr[i]])
		}
	}
	return verifFill(seed, gaps, text, attr)
}

func verifFormat(src string) (string, error) {
	tf, err := parser.ParseString(src)
	if err != nil {
		return "", err
	}
	var buf bytes.Buffer
	if err := tf.Write(&buf); err != nil {
		return "", err
	}
	return buf.String(), nil
}

// verifInlineNonTrailer: some element written in single-line mode (its children are all on
// one line) has a child that carries no trailing-space information (children slot, component
// call, comment, control flow, raw element). This is the shape of the known formatter
// findings of C08/C09: such a child is always followed by a line break when written.
func verifInlineNonTrailer(nodes []parser.Node) bool {
	found := false
	for _, n := range nodes {
		switch n := n.(type) {
		case parser.Element:
			if !n.IndentChildren {
				for _, c := range n.Children {
					if _, ws := c.(parser.Whitespace); ws {
						continue
					}
					// the node kinds that carry no trailing-space information on the pinned tree
					// (listed explicitly: the class must not follow the implementation if it changes)
					switch c.(type) {
					case parser.ChildrenExpression, parser.CallTemplateExpression, parser.TemplElementExpression,
						parser.HTMLComment, parser.GoComment, parser.IfExpression, parser.ForExpression,
						parser.SwitchExpression, parser.RawElement, parser.ScriptElement, parser.DocType:
						found = true
					}
				}
			}
			found = verifInlineNonTrailer(n.Children) || found
		case parser.IfExpression:
			found = verifInlineNonTrailer(n.Then) || found
			for _, ei := range n.ElseIfs {
				found = verifInlineNonTrailer(ei.Then) || found
			}
			found = verifInlineNonTrailer(n.Else) || found
		case parser.ForExpression:
			found = verifInlineNonTrailer(n.Children) || found
		case parser.SwitchExpression:
			for _, c := range n.Cases {
				found = verifInlineNonTrailer(c.Children) || found
			}
		case parser.TemplElementExpression:
			found = verifInlineNonTrailer(n.Children) || found
		}
	}
	return found
}

// verifFileHasAttrLineBreak: some constant attribute value contains a line break (in the seeds
// only a character reference can put one there) - the class of the known finding
// C09-line-break-from-character-reference-in-constant-attribute.
func verifFileHasAttrLineBreak(src string) bool {
	tf, err := parser.ParseString(src)
	if err != nil {
		return false
	}
	found := false
	for _, n := range tf.Nodes {
		if t, ok := n.(parser.HTMLTemplate); ok {
			for _, c := range t.Children {
				if e, ok := c.(parser.Element); ok {
					for _, a := range e.Attributes {
						if ca, ok := a.(parser.ConstantAttribute); ok {
							for i := 0; i < len(ca.Value); i++ {
								if ca.Value[i] == '\n' {
									found = true
								}
							}
						}
					}
				}
			}
		}
	}
	return found
}

// verifTextWithCR: some text node contains a carriage return (a lone CR does not end a text
// run, CR LF does) - the class of the known finding C09-text-ending-in-lone-carriage-return.
func verifTextWithCR(nodes []parser.Node) bool {
	found := false
	for _, n := range nodes {
		switch n := n.(type) {
		case parser.Text:
			for i := 0; i < len(n.Value); i++ {
				if n.Value[i] == '\r' {
					found = true
				}
			}
		case parser.Element:
			found = verifTextWithCR(n.Children) || found
		case parser.IfExpression:
			found = verifTextWithCR(n.Then) || found
			for _, ei := range n.ElseIfs {
				found = verifTextWithCR(ei.Then) || found
			}
			found = verifTextWithCR(n.Else) || found
		case parser.ForExpression:
			found = verifTextWithCR(n.Children) || found
		case parser.SwitchExpression:
			for _, c := range n.Cases {
				found = verifTextWithCR(c.Children) || found
			}
		case parser.TemplElementExpression:
			found = verifTextWithCR(n.Children) || found
		}
	}
	return found
}

func verifFileHasTextWithCR(src string) bool {
	tf, err := parser.ParseString(src)
	if err != nil {
		return false
	}
	found := false
	for _, n := range tf.Nodes {
		if t, ok := n.(parser.HTMLTemplate); ok {
			found = verifTextWithCR(t.Children) || found
		}
	}
	return found
}

func verifFileHasInlineNonTrailer(src string) bool {
	tf, err := parser.ParseString(src)
	if err != nil {
		return false
	}
	found := false
	for _, n := range tf.Nodes {
		if t, ok := n.(parser.HTMLTemplate); ok {
			found = verifInlineNonTrailer(t.Children) || found
		}
	}
	return found
}

// verifTightBeforeIndentedInline: somewhere a node that is directly followed (no whitespace
// in the source) by an inline element whose children span several lines. The formatter
// treats such an element as a block for layout and forces a line break in front of it, which
// is parsed back as whitespace and rendered as a space (known finding of C08).
func verifTightBeforeIndentedInline(nodes []parser.Node) bool {
	found := false
	for i, n := range nodes {
		if i+1 < len(nodes) {
			if next, ok := nodes[i+1].(parser.Element); ok && next.IndentChildren && !next.IsBlockElement() {
				if wt, ok := n.(parser.WhitespaceTrailer); ok && wt.Trailing() == parser.SpaceNone {
					found = true
				}
			}
		}
		switch n := n.(type) {
		case parser.Element:
			found = verifTightBeforeIndentedInline(n.Children) || found
		case parser.IfExpression:
			found = verifTightBeforeIndentedInline(n.Then) || found
			for _, ei := range n.ElseIfs {
				found = verifTightBeforeIndentedInline(ei.Then) || found
			}
			found = verifTightBeforeIndentedInline(n.Else) || found
		case parser.ForExpression:
			found = verifTightBeforeIndentedInline(n.Children) || found
		case parser.SwitchExpression:
			for _, c := range n.Cases {
				found = verifTightBeforeIndentedInline(c.Children) || found
			}
		case parser.TemplElementExpression:
			found = verifTightBeforeIndentedInline(n.Children) || found
		}
	}
	return found
}

func verifFileHasTightBeforeIndentedInline(src string) bool {
	tf, err := parser.ParseString(src)
	if err != nil {
		return false
	}
	found := false
	for _, n := range tf.Nodes {
		if t, ok := n.(parser.HTMLTemplate); ok {
			found = verifTightBeforeIndentedInline(t.Children) || found
		}
	}
	return found
}
