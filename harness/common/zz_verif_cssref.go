package PKGNAME

// Reference for CSS declaration values (CSS Syntax Level 3, section 4 tokenizer, restricted to
// what decides the C05 statement), written as a byte-level automaton and compiled at init
// into tables, so that running it over symbolic bytes builds one term and never forks.
//
// It answers: if this text is placed as a declaration value (after "name:" and before the
// ";" the template appends), does the declaration end exactly at that ";"? It rejects
// (state cssBad): a top-level ';' '{' '}' '[' ']' ')' or backslash, any '(' that is not part of
// url( — i.e. every other function token and every plain block —, a comment opener "/*", an
// unterminated or newline-broken string, a bad url token, '<' anywhere (would let "</style>"
// or "<!--" appear), a backslash inside url(...) (an escape could spell another scheme), and
// a url whose scheme (WHATWG scheme extraction, as in C04) is not http, https or mailto.
// This is conservative: balanced plain blocks and escapes are legal CSS but no correct
// sanitiser needs to let them through.

const (
	cssTop = iota
	cssIdent
	cssSlash
	cssDQ
	cssDQe
	cssSQ
	cssSQe
	cssURLStart
	cssURLUnq
	cssURLWs
	cssURLDQ
	cssURLSQ
	cssURLAfter
	cssURLRemnants // inside a <bad-url-token>: consumed up to the next ')'
	cssBad
)

// scheme sub-states
const (
	schStart    = 0
	schNone     = 1
	schAllowed  = 2
	schGeneric  = 3
	schTrieBase = 4
)

var cssSchemes = []string{"http", "https", "mailto"}

type cssTrieNode struct {
	next [26]uint8 // 0 = no edge, else node index
	word bool
}

var cssTrie []cssTrieNode

func cssBuildTrie() {
	cssTrie = []cssTrieNode{{}}
	for _, w := range cssSchemes {
		cur := 0
		for i := 0; i < len(w); i++ {
			k := w[i] - 'a'
			if cssTrie[cur].next[k] == 0 {
				cssTrie = append(cssTrie, cssTrieNode{})
				cssTrie[cur].next[k] = uint8(len(cssTrie) - 1)
			}
			cur = int(cssTrie[cur].next[k])
		}
		cssTrie[cur].word = true
	}
}

func cssIsAlpha(b byte) bool { return (b >= 'a' && b <= 'z') || (b >= 'A' && b <= 'Z') }
func cssIsDigit(b byte) bool { return b >= '0' && b <= '9' }

// cssSchemeStep advances the scheme automaton; bad = a scheme outside the allow-list ended.
func cssSchemeStep(sub uint8, b byte) (uint8, bool) {
	if sub == schNone || sub == schAllowed {
		return sub, false
	}
	if b == '\t' || b == '\n' || b == '\r' {
		return sub, false // removed by the URL parser wherever they appear
	}
	node := -1
	switch {
	case sub == schStart:
		if b <= 0x20 {
			return schStart, false // leading C0 control or space is stripped
		}
		if !cssIsAlpha(b) {
			return schNone, false
		}
		node = 0
	case sub == schGeneric:
		if cssIsAlpha(b) || cssIsDigit(b) || b == '+' || b == '-' || b == '.' {
			return schGeneric, false
		}
		if b == ':' {
			return schGeneric, true
		}
		return schNone, false
	default:
		node = int(sub - schTrieBase + 1)
	}
	if b == ':' {
		if node > 0 && cssTrie[node].word {
			return schAllowed, false
		}
		return schGeneric, true
	}
	if cssIsAlpha(b) {
		if n := cssTrie[node].next[(b|0x20)-'a']; n != 0 {
			return schTrieBase + n - 1, false
		}
		return schGeneric, false
	}
	if cssIsDigit(b) || b == '+' || b == '-' || b == '.' {
		if node == 0 {
			return schNone, false
		}
		return schGeneric, false
	}
	return schNone, false
}

func cssIsIdentByte(b byte) bool {
	return cssIsAlpha(b) || cssIsDigit(b) || b == '-' || b == '_' || b >= 0x80
}

func cssIsWS(b byte) bool      { return b == ' ' || b == '\t' || b == '\n' || b == '\r' || b == '\f' }
func cssIsNewline(b byte) bool { return b == '\n' || b == '\r' || b == '\f' }

type cssState struct{ mode, sub uint8 }

func cssStep(st cssState, b byte) cssState {
	bad := cssState{cssBad, 0}
	switch st.mode {
	case cssBad:
		return bad
	case cssSlash:
		if b == '*' {
			return bad
		}
		return cssStep(cssState{cssTop, 0}, b)
	case cssTop, cssIdent:
		switch {
		case cssIsIdentByte(b):
			l := b | 0x20
			switch {
			case st.mode == cssTop && l == 'u':
				return cssState{cssIdent, 1}
			case st.mode == cssIdent && st.sub == 1 && l == 'r':
				return cssState{cssIdent, 2}
			case st.mode == cssIdent && st.sub == 2 && l == 'l':
				return cssState{cssIdent, 3}
			}
			return cssState{cssIdent, 4}
		case b == '(':
			if st.mode == cssIdent && st.sub == 3 {
				return cssState{cssURLStart, schStart}
			}
			return bad
		case b == ')' || b == '[' || b == ']' || b == '{' || b == '}' || b == ';' || b == '\\' || b == '<':
			return bad
		case b == '"':
			return cssState{cssDQ, 0}
		case b == '\'':
			return cssState{cssSQ, 0}
		case b == '/':
			return cssState{cssSlash, 0}
		}
		return cssState{cssTop, 0}
	case cssDQ, cssSQ:
		q := byte('"')
		if st.mode == cssSQ {
			q = '\''
		}
		switch {
		case b == q:
			return cssState{cssTop, 0}
		case b == '\\':
			return cssState{st.mode + 1, 0}
		case cssIsNewline(b) || b == '<':
			return bad
		}
		return st
	case cssDQe, cssSQe:
		if b == '<' {
			return bad
		}
		return cssState{st.mode - 1, 0}
	case cssURLStart:
		switch {
		case cssIsWS(b):
			return st
		case b == '"':
			return cssState{cssURLDQ, schStart}
		case b == '\'':
			return cssState{cssURLSQ, schStart}
		case b == ')':
			return cssState{cssTop, 0}
		}
		return cssStep(cssState{cssURLUnq, schStart}, b)
	case cssURLUnq:
		switch {
		case b == ')':
			return cssState{cssTop, 0}
		case cssIsWS(b):
			return cssState{cssURLWs, 0}
		case b == '\\' || b == '<':
			return bad
		case b == '"' || b == '\'' || b == '(' || b <= 0x08 || b == 0x0B || (b >= 0x0E && b <= 0x1F) || b == 0x7F:
			// <bad-url-token>: the remnants are consumed up to ')'; the url is not used
			return cssState{cssURLRemnants, 0}
		}
		sub, isBad := cssSchemeStep(st.sub, b)
		if isBad {
			return bad
		}
		return cssState{cssURLUnq, sub}
	case cssURLRemnants:
		switch {
		case b == ')':
			return cssState{cssTop, 0}
		case b == '\\' || b == '<':
			return bad
		}
		return st
	case cssURLWs:
		switch {
		case cssIsWS(b):
			return st
		case b == ')':
			return cssState{cssTop, 0}
		case b == '\\' || b == '<':
			return bad
		}
		return cssState{cssURLRemnants, 0}
	case cssURLAfter:
		switch {
		case cssIsWS(b):
			return st
		case b == ')':
			return cssState{cssTop, 0}
		}
		return bad
	case cssURLDQ, cssURLSQ:
		q := byte('"')
		if st.mode == cssURLSQ {
			q = '\''
		}
		switch {
		case b == q:
			return cssState{cssURLAfter, 0}
		case b == '\\' || b == '<' || cssIsNewline(b):
			return bad
		}
		sub, isBad := cssSchemeStep(st.sub, b)
		if isBad {
			return bad
		}
		return cssState{st.mode, sub}
	}
	return bad
}

var (
	cssClass   [256]uint8
	cssNC      int
	cssTrans   []uint8 // state*cssNC + class -> state
	cssAccept  []uint8 // 1 if a declaration value may end in this state
	cssInitial uint8
	cssInDQ    uint8 // the state "inside a top-level double-quoted string"
)

func init() {
	cssBuildTrie()
	ids := map[cssState]int{}
	var states []cssState
	add := func(s cssState) int {
		if id, ok := ids[s]; ok {
			return id
		}
		ids[s] = len(states)
		states = append(states, s)
		return len(states) - 1
	}
	add(cssState{cssTop, 0})
	full := [][256]uint8{}
	for i := 0; i < len(states); i++ {
		var row [256]uint8
		for b := 0; b < 256; b++ {
			row[b] = uint8(add(cssStep(states[i], byte(b))))
		}
		full = append(full, row)
	}
	// byte classes = bytes with identical columns
	sig := map[string]uint8{}
	for b := 0; b < 256; b++ {
		col := make([]byte, len(states))
		for i := range states {
			col[i] = full[i][b]
		}
		k := string(col)
		c, ok := sig[k]
		if !ok {
			c = uint8(len(sig))
			sig[k] = c
		}
		cssClass[b] = c
	}
	cssNC = 1
	for cssNC < len(sig) {
		cssNC *= 2
	}
	cssTrans = make([]uint8, len(states)*cssNC)
	for i := range states {
		for b := 0; b < 256; b++ {
			cssTrans[i*cssNC+int(cssClass[b])] = full[i][b]
		}
	}
	cssAccept = make([]uint8, len(states))
	for i, s := range states {
		if s.mode == cssTop || s.mode == cssIdent || s.mode == cssSlash {
			cssAccept[i] = 1
		}
	}
	cssInitial = uint8(ids[cssState{cssTop, 0}])
	cssInDQ = uint8(add(cssState{cssDQ, 0}))
}

// verifCSSValueOK runs the automaton over v from the state "start of a declaration value".
func verifCSSValueOK(v string) bool {
	return verifCSSRun(cssInitial, v)
}

func verifCSSRun(st uint8, v string) bool {
	return symDFAAccepts(cssTrans, cssNC, cssClass[:], st, v, cssAccept)
}

var cssNameByte = func() (t [256]uint8) {
	for b := 0; b < 256; b++ {
		if cssIsAlpha(byte(b)) || b == '-' {
			t[b] = 1
		}
	}
	return
}()

// verifCSSNameOK: the property name consists of letters and '-' only (cannot end the
// declaration or the rule, cannot be a function or at-rule).
func verifCSSNameOK(p string) bool {
	ok := uint8(1)
	for i := 0; i < len(p); i++ {
		ok &= cssNameByte[p[i]]
	}
	return len(p) > 0 && ok == 1
}
