package parser

import (
	"github.com/a-h/parse"
)

var verifSeeds = []string{
	// 0: elements, attributes of every kind, text, expressions
	"package p\n\ntempl a(s string, b bool) {\n\t<div id=\"x\" title={ s } hidden?={ b } { attrs... }\n\t\tif b {\n\t\t\tclass=\"c\"\n\t\t}\n\t>t { s }<br/></div>\n}\n",
	// 1: control flow
	"package p\n\ntempl b(xs []string) {\n\tfor _, x := range xs {\n\t\tif x == \"\" {\n\t\t\t<i>e</i>\n\t\t} else if x == \"a\" {\n\t\t\ta\n\t\t} else {\n\t\t\t{ x }\n\t\t}\n\t}\n\tswitch len(xs) {\n\t\tcase 0:\n\t\t\tz\n\t\tdefault:\n\t\t\tm\n\t}\n}\n",
	// 2: calls, children, raw go, comments, doctype
	"package p\n\nimport \"fmt\"\n\nvar v = fmt.Sprint(1)\n\ntempl c() {\n\t<!DOCTYPE html>\n\t<!-- c -->\n\t// g\n\t{{ y := v }}\n\t@d(y) {\n\t\t<p>{ children... }</p>\n\t}\n\t@d(\"z\")\n}\n\ntempl d(s string) {\n\t{ s }\n}\n",
	// 3: css and script templates, style/script elements
	"package p\n\ncss k(c string) {\n\tcolor: { c };\n\twidth: 1px;\n}\n\nscript f(a string) {\n\talert(a);\n}\n\ntempl e(n string) {\n\t<style>p{}</style>\n\t<script>var q = {{ n }};</script>\n\t<button class={ k(n) } onclick={ f(n) }>b</button>\n}\n",
	// 4: function literals and function types inside templ element expressions and arguments
	"package p\n\ntempl g(f func() string) {\n\t@func() templ.Component {\n\t\treturn h(f)\n\t}()\n\t@h(func() string { return \"x\" }) {\n\t\t<b>k</b>\n\t}\n\t{ func(s string) string { return s }(\"y\") }\n}\n\ntempl h(f func() string) {\n\t{ f() }\n}\n",
	// 5: the top-level declaration lines (the file parser decides line by line what starts a template)
	"package p\n\nimport \"fmt\"\n\nscript f(a string) {\n\talert(a);\n}\n\ncss k() {\n\tcolor: red;\n}\n\ntempl t() {\n\t<p>{ fmt.Sprint(1) }</p>\n}\n\nfunc g() string {\n\treturn \"templ x(\"\n}\n",
}

// verifPos is the reference position of a byte index: line = newlines before it, col = bytes
// since the last newline.
func verifPos(input string, index int) (line, col int) {
	last := -1
	for i := 0; i < index && i < len(input); i++ {
		if input[i] == '\n' {
			line++
			last = i
		}
	}
	return line, index - last - 1
}

// VerifC06Total: every filling of a k-byte window at every offset of each seed.
func VerifC06Total() {
	si := symChoose(len(verifSeeds))
	if only := symParam("SEED"); only >= 0 {
		symAssume(si == only)
	}
	seed := verifSeeds[si]
	k := symParam("K")
	off := symChoose(len(seed) - k + 1)
	win := symString("win", k)
	symAssume(len(win) == k)
	input := seed[:off] + win + seed[off+k:]
	var tf TemplateFile
	var err error
	panicked := false
	func() {
		defer func() {
			if r := recover(); r != nil {
				panicked = true
			}
		}()
		tf, err = ParseString(input)
	}()
	symCover("parsed")
	symObserveBool("ok", err == nil)
	symAssert(!panicked, "parsing never panics")
	if err != nil {
		if pe, ok := err.(parse.ParseError); ok {
			symCover("parse-error")
			symAssert(pe.Pos.Index >= 0 && pe.Pos.Index <= len(input), "error position lies inside the input")
			l, c := verifPos(input, pe.Pos.Index)
			symAssert(pe.Pos.Line == l && pe.Pos.Col == c, "error line/col agree with its index")
		}
		return
	}
	_ = tf // range faithfulness is checked on accepted files only: see VerifC06Holes
}

func verifCheckRanges(input string, tf TemplateFile) {
	w := VerifCollect(tf)
	for _, e := range w.Exprs {
		r := e.Expr.Range
		symAssert(r.From.Index >= 0 && r.From.Index <= r.To.Index && r.To.Index <= int64(len(input)), "expression range in bounds and ordered ("+e.Slot+")")
		if r.From.Index < 0 || r.From.Index > r.To.Index || r.To.Index > int64(len(input)) {
			continue
		}
		l, c := verifPos(input, int(r.From.Index))
		symAssert(int(r.From.Line) == l && int(r.From.Col) == c, "expression start line/col agree with its index ("+e.Slot+")")
		l, c = verifPos(input, int(r.To.Index))
		symAssert(int(r.To.Line) == l && int(r.To.Col) == c, "expression end line/col agree with its index ("+e.Slot+")")
		v := e.Expr.Value
		rest := input[r.From.Index:]
		symAssert(len(rest) >= len(v) && rest[:len(v)] == v, "source at the range start begins with the recorded expression text ("+e.Slot+")")
	}
	for _, n := range w.Names {
		r := n.Range
		if r.From.Index == 0 && r.To.Index == 0 {
			continue // no range recorded for this name
		}
		symAssert(r.From.Index >= 0 && r.To.Index <= int64(len(input)) && r.To.Index-r.From.Index == int64(len(n.Name)), "name range has the length of the name ("+n.What+")")
		if r.From.Index >= 0 && r.To.Index <= int64(len(input)) && r.From.Index <= r.To.Index {
			symAssert(input[r.From.Index:r.To.Index] == n.Name, "name range covers exactly the name ("+n.What+")")
		}
	}
}

// VerifC06Concrete: the unmodified seeds parse and satisfy the range invariants.
func VerifC06Concrete() {
	for _, s := range verifSeeds {
		tf, err := ParseString(s)
		symAssert(err == nil, "seed parses")
		if err == nil {
			verifCheckRanges(s, tf)
		}
	}
	symCover("seeds")
}

// Templates with expression holes (marked §) in every syntactic slot; the holes are filled
// with symbolic Go identifiers, so the file stays acceptable to generate + gofmt.
var verifHoleSeeds = []string{
	"// header §\n//go:build x\n\npackage p\n\ntempl a(§ string) {\n\t<div title={ § } hidden?={ §ok }>é { § }</div>\n}\n",
	"package p\n\ntempl b(§ []string) {\n\tfor _, v := range § {\n\t\tif v == § {\n\t\t\t{ v }\n\t\t}\n\t}\n\t@c(§...)\n}\n\ntempl c(§ ...string) {\n}\n",
	// padding: '¤' = symbolic horizontal space, '¶' = symbolic white space that may hold a line break
	"package¤p\n\ncss k(§ string) {\n\tcolor: {¶§¶};\n}\n\ntempl d(§ string) {\n\t<div title={¶§¶} hidden?={ § == \"\" }>{¶§¶}</div>\n\tif § == \"\" {\n\t\t@d(¶§¶)\n\t}\n}\n",
}

// verifPad: 1..2 symbolic bytes of white space (horizontal only, or including LF).
func verifPad(name string, lf bool) string {
	s := symString(name, 2)
	symAssume(len(s) >= 1)
	for i := 0; i < len(s); i++ {
		symAssume(s[i] == ' ' || s[i] == '\t' || (lf && s[i] == '\n'))
	}
	return s
}

func verifIdent(name string, max int) string {
	s := symString(name, max)
	symAssume(len(s) >= 1)
	for i := 0; i < len(s); i++ {
		c := s[i]
		if i == 0 {
			symAssume((c >= 'a' && c <= 'z') || c == '_')
		} else {
			symAssume((c >= 'a' && c <= 'z') || c == '_' || (c >= '0' && c <= '9'))
		}
	}
	return s
}

// VerifC06Holes: position faithfulness for accepted files with symbolic identifiers, CRLF or
// LF line ends, and multi-byte text before an expression on the same line.
func VerifC06Holes() {
	seed := verifHoleSeeds[symChoose(len(verifHoleSeeds))]
	id := verifIdent("id", symParam("ID"))
	for _, kw := range []string{"if", "go", "for", "var", "map"} {
		symAssume(id != kw) // Go keywords are not identifiers
	}
	crlf := symBool("crlf")
	hpad, vpad := " ", " "
	for i := 0; i+1 < len(seed); i++ {
		if seed[i] == 0xC2 && seed[i+1] == 0xA4 {
			hpad, vpad = verifPad("hpad", false), verifPad("vpad", true)
			break
		}
	}
	input := ""
	for i := 0; i < len(seed); i++ {
		switch {
		case seed[i] == 0xC2 && i+1 < len(seed) && seed[i+1] == 0xA7: // the hole marker
			input += id
			i++
		case seed[i] == 0xC2 && i+1 < len(seed) && seed[i+1] == 0xA4:
			input += hpad
			i++
		case seed[i] == 0xC2 && i+1 < len(seed) && seed[i+1] == 0xB6:
			input += vpad
			i++
		case seed[i] == '\n' && crlf:
			input += "\r\n"
		default:
			input += string(seed[i])
		}
	}
	if symBool("bom") {
		// a file saved with a byte order mark: whatever the parser makes of it, positions are
		// positions in the file as given
		input = "\uFEFF" + input
	}
	tf, err := ParseString(input)
	symCover("holes")
	symAssert(err == nil, "the filled template parses")
	if err == nil {
		verifCheckRanges(input, tf)
	}
}

// VerifC06Truncated: every truncation of every seed, optionally followed by one symbolic byte:
// input that ends in the middle of a construct is where go/parser-synthesised nodes and
// Seek/Peek arithmetic go out of bounds.
func VerifC06Truncated() {
	all := append(append([]string{}, verifSeeds...), verifHoleSeedsFilled()...)
	seed := all[symChoose(len(all))]
	cut := symChoose(len(seed) + 1)
	input := seed[:cut]
	if symParam("TAIL") == 1 && symBool("tail") {
		input += symString("t", 1)
	}
	var err error
	panicked := false
	func() {
		defer func() {
			if r := recover(); r != nil {
				panicked = true
			}
		}()
		_, err = ParseString(input)
	}()
	symCover("truncated")
	symAssert(!panicked, "parsing a truncated file never panics")
	if err != nil {
		if pe, ok := err.(parse.ParseError); ok {
			symAssert(pe.Pos.Index >= 0 && pe.Pos.Index <= len(input), "error position lies inside the input")
		}
	}
}

func verifHoleSeedsFilled() []string {
	var out []string
	for _, s := range verifHoleSeeds {
		f := ""
		for i := 0; i < len(s); i++ {
			if s[i] == 0xC2 && i+1 < len(s) && (s[i+1] == 0xA7 || s[i+1] == 0xA4 || s[i+1] == 0xB6) {
				if s[i+1] == 0xA7 {
					f += "x"
				} else {
					f += " "
				}
				i++
				continue
			}
			f += string(s[i])
		}
		out = append(out, f)
	}
	return out
}
