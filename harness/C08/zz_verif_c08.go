package generator

import (
	"bytes"

	parser "github.com/a-h/templ/parser/v2"
)

// verifMaskPositions replaces the digits after "Line: " and "Col: " (source positions
// embedded in templ.Error literals) by '#'.
func verifMaskPositions(s string) string {
	out := make([]byte, 0, len(s))
	for i := 0; i < len(s); i++ {
		out = append(out, s[i])
		for _, key := range []string{"Line: ", "Col: "} {
			if i+1 >= len(key) && s[i+1-len(key):i+1] == key {
				j := i + 1
				for j < len(s) && s[j] >= '0' && s[j] <= '9' {
					j++
				}
				if j > i+1 {
					out = append(out, '#')
					i = j - 1
				}
			}
		}
	}
	return string(out)
}

func verifGenerate(src string) (code string, literals []string, err error) {
	tf, err := parser.ParseString(src)
	if err != nil {
		return "", nil, err
	}
	var buf bytes.Buffer
	out, err := Generate(tf, &buf)
	if err != nil {
		return "", nil, err
	}
	return buf.String(), out.Literals, nil
}

// VerifC08Meaning: the program generated from the formatted file equals the one generated
// from the original, apart from embedded source positions.
func VerifC08Meaning() {
	x := verifSymbolicInput()
	g0, lit0, err := verifGenerate(x)
	if err != nil {
		symCover("rejected")
		return
	}
	f1, err := verifFormat(x)
	symAssert(err == nil, "an accepted template can be formatted")
	if err != nil {
		return
	}
	symCover("compared")
	g1, lit1, err := verifGenerate(f1)
	symAssert(err == nil, "the formatted file is accepted too")
	if err != nil {
		return
	}
	symKnown("C08-line-break-forced-before-inline-element-with-multi-line-children", verifFileHasTightBeforeIndentedInline(x))
	symKnown("C08-text-ending-in-lone-carriage-return", verifFileHasTextWithCR(x))
	symAssert(len(lit0) == len(lit1), "same number of static literals")
	symAssertEq(verifMaskPositions(g1), verifMaskPositions(g0), "generated code from the formatted file equals the original's (positions masked)")
}
