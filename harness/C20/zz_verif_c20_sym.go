package proxy

// verifCheckInserted: under symgo insertScriptTagIntoBody is the stub of zz_verif_c20.go, so
// the decoded document must be exactly stub(nonce, body) with the nonce parseNonce extracts.
// (Natively the real x/net/html rewriting runs and this relation is not checked - see spec.)
func verifCheckInserted(body, dec, nonce string) {
	if !verifStubActive() {
		return
	}
	if len(body) >= 9 && body[:9] == "<frameset" {
		// no body element: the document passes through, still consistently encoded
		symAssert(dec == body, "a document without a body element is delivered unchanged (and still decodes with the declared encoding)")
		return
	}
	symAssert(dec == body+"<RELOAD nonce="+nonce+">", "the decoded document is the original plus one reload script carrying the CSP nonce")
}

func verifStubActive() bool {
	out, _ := insertScriptTagIntoBody("n", "")
	return out == "<RELOAD nonce=n>"
}
