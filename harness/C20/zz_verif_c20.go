package proxy

// Reference extraction of script nonces from a serialized CSP (CSP Level 3, section 2.2 "parse a
// serialized CSP" and 2.3.1 source lists): directives are separated by ';', tokens by ASCII
// whitespace, directive names are ASCII case-insensitive, the first directive with a name
// wins, a nonce source is 'nonce-<base64-value>' (the keyword case-insensitive).

// byte classes as tables, so that classifying a symbolic byte builds a term instead of forking
var verifWSTab, verifB64Tab, verifLowerTab = func() (ws, b64 [256]bool, low [256]byte) {
	for i := 0; i < 256; i++ {
		c := byte(i)
		ws[i] = c == ' ' || c == '\t' || c == '\n' || c == '\f' || c == '\r'
		b64[i] = (c >= 'a' && c <= 'z') || (c >= 'A' && c <= 'Z') || (c >= '0' && c <= '9') || c == '+' || c == '/' || c == '-' || c == '_' || c == '='
		low[i] = c
		if c >= 'A' && c <= 'Z' {
			low[i] = c + 32
		}
	}
	return
}()

func verifIsASCIIWS(c byte) bool { return verifWSTab[c] }
func verifIsB64(c byte) bool     { return verifB64Tab[c] }

func verifEqFold(s, lower string) bool {
	if len(s) != len(lower) {
		return false
	}
	ok := true
	for i := 0; i < len(s); i++ {
		ok = symAnd(ok, verifLowerTab[s[i]] == lower[i])
	}
	return ok
}

func verifFields(s string) []string {
	var out []string
	i := 0
	for i < len(s) {
		for i < len(s) && verifIsASCIIWS(s[i]) {
			i++
		}
		st := i
		for i < len(s) && !verifIsASCIIWS(s[i]) {
			i++
		}
		if i > st {
			out = append(out, s[st:i])
		}
	}
	return out
}

// verifScriptNonces returns the nonces a browser accepts for script elements under csp
// (script-src only; the script-src-elem / default-src fallbacks are outside this oracle and
// are kept out of the inputs).
func verifScriptNonces(csp string) []string {
	start := 0
	for i := 0; i <= len(csp); i++ {
		if i < len(csp) && csp[i] != ';' {
			continue
		}
		parts := verifFields(csp[start:i])
		start = i + 1
		if len(parts) == 0 || !verifEqFold(parts[0], "script-src") {
			continue
		}
		var nonces []string
		for _, src := range parts[1:] {
			if len(src) > 8 && src[0] == '\'' && src[len(src)-1] == '\'' && verifEqFold(src[1:7], "nonce-") {
				val := src[7 : len(src)-1]
				ok := true
				for k := 0; k < len(val); k++ {
					ok = symAnd(ok, verifIsB64(val[k]))
				}
				if ok {
					nonces = append(nonces, val)
				}
			}
		}
		return nonces // the first script-src directive wins
	}
	return nil
}

var verifVary int    // 0: vary letter case, 1: vary separators and neighbours
var verifSepStr string // the separator used throughout one header

func verifSep(name string) string { return verifSepStr }

// symCase returns s unchanged, with one letter upper-cased (position chosen symbolically), or
// all upper case.
func symCase(name, s string) string {
	if verifVary != 0 {
		return s
	}
	b := []byte(s)
	mode := symChoose(len(b) + 2)
	for i := range b {
		if b[i] >= 'a' && b[i] <= 'z' && (mode == len(b)+1 || mode == i+1) {
			b[i] -= 32
		}
	}
	return string(b)
}

// VerifC20Nonce: headers built from a skeleton with symbolic separators, letter case, nonce
// and neighbouring directives / sources.
func VerifC20Nonce() {
	nonce := symString("nonce", symParam("N"))
	symAssume(len(nonce) >= 1) // an empty nonce source is not a nonce (malformed policy): outside the claim
	for i := 0; i < len(nonce); i++ {
		symAssume(verifIsB64(nonce[i]))
	}
	verifVary = symChoose(2)
	verifSepStr = " "
	csp := ""
	if verifVary == 1 {
		verifSepStr = []string{" ", "\t", "  ", "\n", "\f"}[symChoose(5)]
		switch symChoose(3) {
		case 1:
			csp += "img-src *;"
		case 2:
			csp += "style-src 'nonce-sss'" + verifSep("s0") + ";"
		}
		if symChoose(2) == 1 {
			csp += verifSep("s1")
		}
	}
	csp += symCase("dn", "script-src") + verifSep("s2")
	if verifVary == 1 {
		switch symChoose(3) {
		case 1:
			csp += "'self'" + verifSep("s3")
		case 2:
			csp += "https://x.example" + verifSep("s3")
		}
	}
	csp += "'" + symCase("kw", "nonce-") + nonce + "'"
	if symChoose(2) == 1 {
		csp += verifSep("s4") + "'nonce-zz'"
	}
	if verifVary == 1 && symChoose(2) == 1 {
		csp += verifSep("s5") + ";script-src 'nonce-late'"
	}
	got := parseNonce(csp)
	symObserve("nonce", got)
	want := verifScriptNonces(csp)
	symCover("nonce")
	if len(want) == 0 {
		return // the page has no usable script nonce: nothing is required
	}
	found := false
	for _, w := range want {
		found = found || got == w
	}
	symAssert(found, "the reload script carries one of the nonces the page's CSP accepts for scripts")
}

// VerifC20NonceFree: a fully symbolic short header (every byte value).
func VerifC20NonceFree() {
	csp := symString("csp", symParam("FREE"))
	prefix := []string{"", "script-src ", "script-src 'nonce-"}[symChoose(3)]
	full := prefix + csp
	got := parseNonce(full)
	symObserve("nonce", got)
	symCover("nonce-free")
	want := verifScriptNonces(full)
	if len(want) == 0 {
		return
	}
	found := false
	for _, w := range want {
		found = found || got == w
	}
	symAssert(found, "the reload script carries one of the nonces the page's CSP accepts for scripts")
}

// ---- modifyResponse bookkeeping ----

var verifNonceSeen string

// verifInsertStub replaces insertScriptTagIntoBody under symgo (x/net/html is outside the
// engine): it appends a marker carrying the nonce it was given.
func verifInsertStub(nonce, body string) (string, error) {
	verifNonceSeen = nonce
	if len(body) >= 9 && body[:9] == "<frameset" {
		// a document without a body element (a frameset page): nothing is inserted
		return body, ErrBodyNotFound
	}
	return body + "<RELOAD nonce=" + nonce + ">", nil
}
