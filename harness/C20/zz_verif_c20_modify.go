package proxy

import (
	"bytes"
	"compress/gzip"
	"io"
	"log/slog"
	"net/http"
	"net/url"
	"strconv"

	"github.com/andybalholm/brotli"
)

func verifEncode(enc string, body []byte) []byte {
	var buf bytes.Buffer
	switch enc {
	case "gzip":
		w := gzip.NewWriter(&buf)
		w.Write(body)
		w.Close()
	case "br":
		w := brotli.NewWriter(&buf)
		w.Write(body)
		w.Close()
	default:
		buf.Write(body)
	}
	return buf.Bytes()
}

func verifDecode(enc string, data []byte) ([]byte, error) {
	switch enc {
	case "gzip":
		r, err := gzip.NewReader(bytes.NewReader(data))
		if err != nil {
			return nil, err
		}
		return io.ReadAll(r)
	case "br":
		return io.ReadAll(brotli.NewReader(bytes.NewReader(data)))
	}
	return data, nil
}

// VerifC20Modify: which responses are touched, and the header/body relations of those that are.
func VerifC20Modify() {
	ct := []string{"text/html", "text/html; charset=utf-8", "application/json", "", "text/htm"}[symChoose(5)]
	if symBool("ctSymbolic") {
		ct = symString("ct", symParam("CT"))
	}
	encKind := symChoose(4)
	enc := []string{"", "gzip", "br", ""}[encKind]
	if encKind == 3 {
		enc = symString("enc", symParam("ENC"))
		symAssume(enc != "" && enc != "gzip" && enc != "br")
	}
	hx := []string{"", "true", "false"}[symChoose(3)]
	boosted := []string{"", "true"}[symChoose(2)] // htmx sends HX-Boosted next to HX-Request for boosted links
	status := symInt("status")                    // any status: error pages and redirects with an HTML body are pages too
	symAssume(status == 0 || (status >= 100 && status <= 599))
	skipHdr := []string{"", "true", "1"}[symChoose(3)]
	csp := []string{"", "script-src 'nonce-ab'", "default-src 'self'"}[symChoose(3)]
	body := []byte(symString("body", symParam("B")))
	if symBool("frameset") {
		body = []byte("<frameset></frameset>") // a page without a body element
	}

	wire := verifEncode(enc, body)
	resp := &http.Response{
		StatusCode:    status,
		Header:        http.Header{},
		Body:          io.NopCloser(bytes.NewReader(wire)),
		ContentLength: int64(len(wire)),
		Request:       &http.Request{URL: &url.URL{Path: "/"}, Header: http.Header{}},
	}
	resp.Header.Set("Content-Length", strconv.Itoa(len(wire)))
	if boosted != "" {
		resp.Request.Header.Set("HX-Boosted", boosted)
	}
	if ct != "" {
		resp.Header.Set("Content-Type", ct)
	}
	if enc != "" {
		resp.Header.Set("Content-Encoding", enc)
	}
	if skipHdr != "" {
		resp.Header.Set("templ-skip-modify", skipHdr)
	}
	if csp != "" {
		resp.Header.Set("Content-Security-Policy", csp)
	}
	if hx != "" {
		resp.Request.Header.Set("HX-Request", hx)
	}
	(&roundTripper{}).setShouldSkipResponseModificationHeader(resp.Request, resp)

	h := &Handler{log: slog.New(slog.NewTextHandler(io.Discard, nil))}
	err := h.modifyResponse(resp)
	symAssert(err == nil, "a well-formed response is never rejected")
	if err != nil {
		return
	}
	after, rerr := io.ReadAll(resp.Body)
	symAssert(rerr == nil, "body readable")

	isHTML := len(ct) >= 9 && ct[:9] == "text/html"
	mustPass := !isHTML || skipHdr == "true" || hx == "true" || encKind == 3
	changed := string(after) != string(wire)
	symObserveBool("changed", changed)
	if mustPass {
		symCover("passthrough")
		symAssert(!changed, "non-HTML, skipped, HTMX and unsupported-encoding responses pass through byte-identical")
		symAssert(resp.Header.Get("Content-Length") == strconv.Itoa(len(wire)) && resp.ContentLength == int64(len(wire)), "pass-through: Content-Length untouched")
		symAssert(resp.Header.Get("Content-Encoding") == enc, "pass-through: Content-Encoding untouched")
		return
	}
	symCover("rewritten")
	symAssert(resp.Header.Get("Content-Length") == strconv.Itoa(len(after)), "Content-Length header equals the bytes sent")
	symAssert(resp.ContentLength == int64(len(after)), "Response.ContentLength equals the bytes sent")
	symAssert(resp.Header.Get("Content-Encoding") == enc, "the encoding header still describes the body")
	dec, derr := verifDecode(enc, after)
	symAssert(derr == nil, "the body decodes with the declared encoding")
	if derr != nil {
		return
	}
	if string(body) == "<frameset></frameset>" {
		symAssert(string(dec) == string(body), "a document without a body element is delivered unchanged and still decodes with the declared encoding")
		return
	}
	symAssert(string(dec) != string(body), "an HTML response, whatever its status, gets the reload script added")
	verifCheckInserted(string(body), string(dec), parseNonce(csp))
}

func verifHTMLResponse(enc string, body []byte) *http.Response {
	wire := verifEncode(enc, body)
	resp := &http.Response{
		Header:        http.Header{},
		Body:          io.NopCloser(bytes.NewReader(wire)),
		ContentLength: int64(len(wire)),
		Request:       &http.Request{URL: &url.URL{Path: "/"}, Header: http.Header{}},
	}
	resp.Header.Set("Content-Length", strconv.Itoa(len(wire)))
	resp.Header.Set("Content-Type", "text/html")
	if enc != "" {
		resp.Header.Set("Content-Encoding", enc)
	}
	return resp
}

// VerifC20TwoInFlight: the reverse proxy copies a rewritten body to the browser after
// modifyResponse has returned, while other responses are being rewritten: two pages are
// rewritten one after the other and only then are both bodies read - each must still be its
// own document, of the announced length.
func VerifC20TwoInFlight() {
	enc := []string{"", "gzip", "br"}[symChoose(3)]
	body1 := []byte("<p>1" + symString("b1", symParam("B")) + "</p>")
	body2 := []byte("<p>2" + symString("b2", symParam("B")) + "</p>")
	h := &Handler{log: slog.New(slog.NewTextHandler(io.Discard, nil))}
	r1, r2 := verifHTMLResponse(enc, body1), verifHTMLResponse(enc, body2)
	symAssert(h.modifyResponse(r1) == nil && h.modifyResponse(r2) == nil, "both responses are rewritten")
	symCover("two-in-flight")
	for i, r := range []*http.Response{r1, r2} {
		after, rerr := io.ReadAll(r.Body)
		symAssert(rerr == nil, "body readable")
		symAssert(r.Header.Get("Content-Length") == strconv.Itoa(len(after)) && r.ContentLength == int64(len(after)), "Content-Length equals the bytes sent, also with another response in flight")
		dec, derr := verifDecode(enc, after)
		symAssert(derr == nil, "the body decodes with the declared encoding")
		if derr != nil {
			return
		}
		verifCheckInserted(string([][]byte{body1, body2}[i]), string(dec), "")
	}
}
