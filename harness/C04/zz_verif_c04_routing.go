package generator

import (
	"bytes"
	"strings"

	parser "github.com/a-h/templ/parser/v2"
)

func verifLowerASCII(s string) string {
	b := []byte(s)
	for i := range b {
		if b[i] >= 'A' && b[i] <= 'Z' {
			b[i] += 32
		}
	}
	return string(b)
}

// symNameCase returns name with the case of each letter chosen symbolically.
func symNameCase(tag, name string) string {
	b := []byte(name)
	for i := range b {
		if b[i] >= 'a' && b[i] <= 'z' && symBool(tag+string(rune('0'+i))) {
			b[i] -= 32
		}
	}
	return string(b)
}

// VerifC04Routing: templates as a user can write them - element and attribute names in any
// letter case - are parsed and generated; whenever a browser treats the attribute as the href
// of an <a> or the action of a <form>, the generated code must type the value as templ.SafeURL
// (so that a plain string does not compile and the value passes through the sanitiser).
func VerifC04Routing() {
	which := symChoose(3)
	el, at := "a", "href"
	switch which {
	case 1:
		el, at = "form", "action"
	case 2:
		el, at = "div", "title" // control: an ordinary attribute takes the string route
	}
	el2, at2 := symNameCase("e", el), symNameCase("a", at)
	attr := at2 + "={ u }"
	want := 1
	src := "package p\n\ntempl t(u templ.SafeURL, c, d bool) {\n\t<" + el2 + " " + attr + "></" + el2 + ">\n}\n"
	if symBool("conditional") {
		// the attribute in every branch of a conditional attribute block, nested once more in the else branch
		want = 4
		src = "package p\n\ntempl t(u templ.SafeURL, c, d bool) {\n\t<" + el2 + "\n\t\tif c {\n\t\t\t" + attr + "\n\t\t} else if d {\n\t\t\t" + attr +
			"\n\t\t} else {\n\t\t\tif d {\n\t\t\t\t" + attr + "\n\t\t\t} else {\n\t\t\t\t" + attr + "\n\t\t\t}\n\t\t}\n\t></" + el2 + ">\n}\n"
	}
	tf, err := parser.ParseString(src)
	if err != nil {
		symCover("rejected")
		return // the parser does not accept this spelling: nothing is generated
	}
	var buf bytes.Buffer
	_, err = Generate(tf, &buf)
	symAssert(err == nil, "generates")
	code := buf.String()
	symCover("generated")
	isURLAttr := (verifLowerASCII(el2) == "a" && verifLowerASCII(at2) == "href") || (verifLowerASCII(el2) == "form" && verifLowerASCII(at2) == "action")
	typed := strings.Count(code, " templ.SafeURL = ")
	symObserveInt("typed", typed)
	if isURLAttr {
		symAssert(typed == want, "every href of <a> / action of <form>, in whatever branch of a conditional attribute, is assigned to a templ.SafeURL variable")
	} else {
		symAssert(typed == 0 && strings.Contains(code, "templ.EscapeString("), "ordinary attributes take the escaped-string route")
	}
	symAssert(strings.Contains(code, "templ.EscapeString("), "the attribute value is attribute-escaped on output")
}
