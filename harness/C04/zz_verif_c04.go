package templ

// Reference model for C04, written as a table-driven automaton so that evaluating it on
// symbolic bytes builds one term instead of forking (every step is two table lookups).
//
// It follows the URL Standard's basic URL parser up to the end of the scheme: leading C0
// control or space is stripped, ASCII tab/LF/CR are ignored anywhere, "scheme start state"
// needs an ASCII alpha, "scheme state" accepts alphanumerics, '+', '-', '.', and ends at ':'.
// The automaton additionally tracks whether the scheme read so far is a prefix of one of the
// allowed schemes, so the final state says: no scheme / allowed scheme / other scheme.

const (
	c04NoScheme = 1 // absorbing: not an absolute URL (relative reference)
	c04Allowed  = 2 // absorbing: scheme in the allow-list
	c04Other    = 3 // absorbing: some other scheme  (this is the dangerous outcome)
	c04Start    = 0
	c04Generic  = 4 // inside a scheme that is no prefix of an allowed one
	c04First    = 5 // first trie state
)

var c04Allowlist = []string{"http", "https", "mailto", "tel", "ftp", "ftps"}

const c04NC = 32 // number of byte classes (power of two keeps the index arithmetic simple)

var (
	c04Class  [256]uint8
	c04Trans  []uint8 // state*c04NC + class -> state
	c04States int
)

// byte classes: 0 = other (invalid in a scheme), 1 = tab/LF/CR (ignored), 2 = other C0/space,
// 3 = ':', 4 = digit or + - ., 5 = alpha not used by any allowed scheme, 6.. = one per letter used.
func init() {
	letters := map[byte]uint8{}
	next := uint8(6)
	for _, w := range c04Allowlist {
		for i := 0; i < len(w); i++ {
			if _, ok := letters[w[i]]; !ok {
				letters[w[i]] = next
				next++
			}
		}
	}
	for b := 0; b < 256; b++ {
		c := byte(b)
		switch {
		case c == '\t' || c == '\n' || c == '\r':
			c04Class[b] = 1
		case c <= 0x20:
			c04Class[b] = 2
		case c == ':':
			c04Class[b] = 3
		case (c >= '0' && c <= '9') || c == '+' || c == '-' || c == '.':
			c04Class[b] = 4
		case (c >= 'a' && c <= 'z') || (c >= 'A' && c <= 'Z'):
			if k, ok := letters[c|0x20]; ok {
				c04Class[b] = k
			} else {
				c04Class[b] = 5
			}
		}
	}
	// trie over the allow-list
	type node struct {
		next map[uint8]int
		word bool
	}
	nodes := []*node{{next: map[uint8]int{}}} // node 0 = root (state c04Start shares its edges)
	for _, w := range c04Allowlist {
		cur := 0
		for i := 0; i < len(w); i++ {
			k := letters[w[i]]
			n, ok := nodes[cur].next[k]
			if !ok {
				nodes = append(nodes, &node{next: map[uint8]int{}})
				n = len(nodes) - 1
				nodes[cur].next[k] = n
			}
			cur = n
		}
		nodes[cur].word = true
	}
	stateOf := func(n int) uint8 { return uint8(c04First + n - 1) } // trie node n>=1
	c04States = c04First + len(nodes) - 1
	c04Trans = make([]uint8, c04States*c04NC)
	set := func(s int, cl int, to uint8) { c04Trans[s*c04NC+cl] = to }
	for cl := 0; cl < c04NC; cl++ {
		set(c04NoScheme, cl, c04NoScheme)
		set(c04Allowed, cl, c04Allowed)
		set(c04Other, cl, c04Other)
		// start state
		switch {
		case cl == 1 || cl == 2:
			set(c04Start, cl, c04Start) // leading strip / ignored
		case cl == 5:
			set(c04Start, cl, c04Generic)
		case cl >= 6:
			if n, ok := nodes[0].next[uint8(cl)]; ok {
				set(c04Start, cl, stateOf(n))
			} else {
				set(c04Start, cl, c04Generic)
			}
		default:
			set(c04Start, cl, c04NoScheme)
		}
		// generic scheme state
		switch {
		case cl == 1:
			set(c04Generic, cl, c04Generic)
		case cl == 3:
			set(c04Generic, cl, c04Other)
		case cl >= 4:
			set(c04Generic, cl, c04Generic)
		default:
			set(c04Generic, cl, c04NoScheme)
		}
		for n := 1; n < len(nodes); n++ {
			s := int(stateOf(n))
			switch {
			case cl == 1:
				set(s, cl, uint8(s))
			case cl == 3:
				if nodes[n].word {
					set(s, cl, c04Allowed)
				} else {
					set(s, cl, c04Other)
				}
			case cl == 4 || cl == 5:
				set(s, cl, c04Generic)
			case cl >= 6:
				if to, ok := nodes[n].next[uint8(cl)]; ok {
					set(s, cl, stateOf(to))
				} else {
					set(s, cl, c04Generic)
				}
			default:
				set(s, cl, c04NoScheme)
			}
		}
	}
}

// refSchemeKind runs the automaton; the result is c04NoScheme, c04Allowed or c04Other
// (a string that ends inside a scheme has no scheme).
func refSchemeKind(s string) uint8 {
	st := uint8(c04Start)
	for i := 0; i < len(s); i++ {
		st = c04Trans[int(st)*c04NC+int(c04Class[s[i]])]
	}
	return st
}



func VerifC04URL() {
	s := symString("s", symParam("N"))
	out := URL(s)
	symCover("called")
	symObserve("out", string(out))
	if string(out) != s {
		symCover("rejected")
		symAssert(out == FailedSanitizationURL, "rejected input maps to the failure URL")
		return
	}
	symCover("unchanged")
	symAssert(!symDFAAccepts(c04Trans, c04NC, c04Class[:], c04Start, s, c04AcceptOther()), "unchanged implies relative reference or allow-listed scheme")
}

// VerifC04URLLong: the same claim for long inputs: H free symbolic bytes, then PAD symbolic bytes
// of the kind browsers remove before they read the scheme (C0 controls and space in front, tab/
// LF/CR anywhere), then a free symbolic tail of up to N bytes - the scheme may start and end
// arbitrarily far into the string.
func VerifC04URLLong() {
	pad := make([]byte, symParam("PAD"))
	for i := range pad {
		pad[i] = symByte("p" + string(rune('A'+i/26)) + string(rune('a'+i%26)))
		symAssume(pad[i] <= 0x20)
	}
	s := symString("h", symParam("H")) + string(pad) + symString("t", symParam("N"))
	out := URL(s)
	symCover("called")
	if string(out) != s {
		symCover("rejected")
		symAssert(out == FailedSanitizationURL, "rejected input maps to the failure URL")
		return
	}
	symCover("unchanged")
	symAssert(!symDFAAccepts(c04Trans, c04NC, c04Class[:], c04Start, s, c04AcceptOther()), "unchanged implies relative reference or allow-listed scheme")
}

func c04AcceptOther() []uint8 {
	acc := make([]uint8, c04States)
	acc[c04Other] = 1
	return acc
}
