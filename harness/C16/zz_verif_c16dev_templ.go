package runtime

import (
	"io"
	goruntime "runtime"
	"strconv"
	"strings"
)

type verifDevRec struct{ b []byte }

func (r *verifDevRec) Write(p []byte) (int, error) {
	r.b = append(r.b, p...)
	return len(p), nil
}

var _ io.Writer = (*verifDevRec)(nil)

// The line directive below makes runtime.Caller report a _templ.go path that can exist on
// disk (natively the runtime resolves symlinks of its caller's file name).
//
//line /tmp/zzverif_c16dev_templ.go:1

// VerifC16DevMode: with the development text file written for a template (one Go-escaped
// literal per line, as the generator emits them), WriteString in development mode writes
// exactly what the normally generated code writes. This file's name ends in _templ.go because
// the runtime derives the text file's name from its caller's file name.
func VerifC16DevMode() {
	k := 1 + symChoose(symParam("LITS"))
	lits := make([]string, k)
	escaped := make([]string, k)
	for i := range lits {
		lits[i] = symString("lit"+string(rune('0'+i)), symParam("N"))
		if i == 0 && symParam("BIG") > 0 && symBool("big") {
			lits[i] = strings.Repeat("x", symParam("BIG")) + lits[i] // a large literal (inline style, script, image)
		}
		q := strconv.Quote(lits[i])
		escaped[i] = q[1 : len(q)-1] // what generator.escapeQuotes records in Literals
	}
	_, self, _, ok := goruntime.Caller(0)
	symAssert(ok && strings.HasSuffix(self, "_templ.go"), "harness file name ends in _templ.go")
	symSetFile(self, "// placeholder so that the path exists\n")
	txt := GetDevModeTextFileName(self)
	symSetFile(txt, strings.Join(escaped, "\n"))
	prevMode := developmentMode
	developmentMode = true
	delete(watchModeCache, txt)
	defer func() {
		developmentMode = prevMode
		delete(watchModeCache, txt)
	}()
	symCover("devmode")
	for i := range lits {
		w := &verifDevRec{}
		err := WriteString(w, i+1, "stale text compiled into the binary")
		symAssert(err == nil, "development-mode WriteString finds literal i")
		if err != nil {
			return
		}
		symAssert(string(w.b) == lits[i], "development mode writes the literal of the text file, equal to what fresh code writes")
	}
	// normal mode writes the compiled-in string
	developmentMode = false
	w := &verifDevRec{}
	err := WriteString(w, 1, lits[0])
	symAssert(err == nil && string(w.b) == lits[0], "normal mode writes the compiled string")
}
