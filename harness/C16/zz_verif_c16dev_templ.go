package runtime

import (
	"io"
	goruntime "runtime"
	"strconv"
	"strings"
)

type verifDevRec struct{ b []byte }

func (r *verifDevRec) Write(p []byte) (int, error) {
	r.b = append(r.b, p...)
	return len(p), nil
}

var _ io.Writer = (*verifDevRec)(nil)

// The line directive below makes runtime.Caller report a _templ.go path that can exist on
// disk (natively the runtime resolves symlinks of its caller's file name).
//
//line /tmp/zzverif_c16dev_templ.go:1

// VerifC16DevMode: with the development text file written for a template (one Go-escaped
// literal per line, as the generator emits them), WriteString in development mode writes
// exactly what the normally generated code writes. This file's name ends in _templ.go because
// the runtime derives the text file's name from its caller's file name.
func VerifC16DevMode() {
	k := 1 + symChoose(symParam("LITS"))
	lits := make([]string, k)
	escaped := make([]string, k)
	for i := range lits {
		lits[i] = symString("lit"+string(rune('0'+i)), symParam("N"))
		if i == 0 && symParam("BIG") > 0 && symBool("big") {
			lits[i] = strings.Repeat("x", symParam("BIG")) + lits[i] // a large literal (inline style, script, image)
		}
		q := strconv.Quote(lits[i])
		escaped[i] = q[1 : len(q)-1] // what generator.escapeQuotes records in Literals
	}
	_, self, _, ok := goruntime.Caller(0)
	symAssert(ok && strings.HasSuffix(self, "_templ.go"), "harness file name ends in _templ.go")
	symSetFile(self, "// placeholder so that the path exists\n")
	txt := GetDevModeTextFileName(self)
	symSetFile(txt, strings.Join(escaped, "\n"))
	prevMode := developmentMode
	developmentMode = true
	delete(watchModeCache, txt)
	defer func() {
		developmentMode = prevMode
		delete(watchModeCache, txt)
	}()
	symCover("devmode")
	for i := range lits {
		w := &verifDevRec{}
		// the string compiled into the running binary is stale: any text, in particular one
		// that happens to equal the escaped spelling of the new literal (an edit that un-doubles
		// a backslash or replaces a typed-out escape by the character itself)
		compiled := "stale text compiled into the binary"
		if symBool("compiledEqualsEscaped") {
			compiled = escaped[i]
		}
		err := WriteString(w, i+1, compiled)
		symAssert(err == nil, "development-mode WriteString finds literal i")
		if err != nil {
			return
		}
		symAssert(string(w.b) == lits[i], "development mode writes the literal of the text file, equal to what fresh code writes")
	}
	// normal mode writes the compiled-in string
	developmentMode = false
	w := &verifDevRec{}
	err := WriteString(w, 1, lits[0])
	symAssert(err == nil && string(w.b) == lits[0], "normal mode writes the compiled string")
}


func verifC16Escape(lit string) string {
	q := strconv.Quote(lit)
	return q[1 : len(q)-1]
}

// verifC16Millis: a symbolic duration of lo..hi milliseconds, in nanoseconds.
func verifC16Millis(name string, lo, hi int64) int64 {
	d := symInt64(name)
	symAssume(d >= lo && d <= hi)
	return d * 1000000
}

// VerifC16DevSession: a development session of the compiled program against a clock. The
// generator (which is handed the .templ path, possibly a symbolic link into another directory)
// writes the text file; the program renders; a text-only edit rewrites the text file; the
// program keeps rendering at arbitrary moments. Every render that happens at least 100 ms (the
// documented refresh interval of the runtime's cache) after the edit shows the new text, every
// earlier one the old or the new text, and the first render finds the file the generator wrote.
func VerifC16DevSession() {
	oldLit, newLit := "<p>old \"text\"</p>", "<p>new text\n</p>" // the literal bytes are the subject of dev-mode-write
	_, self, _, ok := goruntime.Caller(0)
	symAssert(ok && strings.HasSuffix(self, "_templ.go"), "harness file name ends in _templ.go")
	symSetFile(self, "// placeholder so that the path exists\n")
	templPath := strings.TrimSuffix(self, "_templ.go") + ".templ"
	symRemoveFile(templPath)
	switch symChoose(3) {
	case 0:
		symSetFile(templPath, "package p\n")
	case 1: // the template is a link to a file of the same name in a shared directory
		symSetFile("/tmp/zzverif_c16shared/zzverif_c16dev.templ", "package p\n")
		symSetSymlink(templPath, "/tmp/zzverif_c16shared/zzverif_c16dev.templ")
	case 2: // ... to a file of another name
		symSetFile("/tmp/zzverif_c16shared/card.templ", "package p\n")
		symSetSymlink(templPath, "/tmp/zzverif_c16shared/card.templ")
	}
	txt := GetDevModeTextFileName(templPath) // the name the generator computes
	for _, p := range []string{self, templPath, "/tmp/zzverif_c16shared/zzverif_c16dev.templ", "/tmp/zzverif_c16shared/card.templ"} {
		symRemoveFile(GetDevModeTextFileName(p)) // no text file left over from an earlier session
	}
	symSetFile(txt, verifC16Escape(oldLit))
	prevMode := developmentMode
	developmentMode = true
	delete(watchModeCache, txt)
	defer func() {
		developmentMode = prevMode
		delete(watchModeCache, txt)
	}()
	render := func() (string, error) {
		w := &verifDevRec{}
		err := WriteString(w, 1, "stale text compiled into the binary")
		return string(w.b), err
	}
	for i := 0; i < symParam("PRE"); i++ {
		symAdvanceClock(verifC16Millis("p"+string(rune('0'+i)), 0, 200))
		got, err := render()
		symAssert(err == nil, "the running program finds the text file the generator wrote")
		if err != nil {
			return
		}
		symAssert(got == oldLit, "renders before the edit show the generated text")
	}
	symAdvanceClock(verifC16Millis("d1", 2, 200))
	symSetFile(txt, verifC16Escape(newLit)) // a text-only edit: the generator rewrites the text file
	sinceEdit := int64(0)
	symCover("session")
	for i := 0; i < symParam("RENDERS"); i++ {
		d := verifC16Millis("r"+string(rune('0'+i)), 0, 200)
		symAdvanceClock(d)
		sinceEdit += d
		got, err := render()
		symAssert(err == nil, "rendering after the edit works")
		if err != nil {
			return
		}
		if sinceEdit >= 100*1000000 {
			symAssert(got == newLit, "a render at least 100 ms after a text-only edit shows the edited text")
		} else {
			symAssert(got == newLit || got == oldLit, "a render shortly after the edit shows the old or the new text")
		}
	}
}
