package generator

import (
	"bytes"
	"strconv"
	"strings"

	parser "github.com/a-h/templ/parser/v2"
)

func verifGen(tf parser.TemplateFile) (string, GeneratorOutput, error) {
	var buf bytes.Buffer
	out, err := Generate(tf, &buf)
	return buf.String(), out, err
}

func verifFile(children ...parser.Node) parser.TemplateFile {
	return parser.TemplateFile{
		Package: parser.Package{Expression: parser.Expression{Value: "package p"}},
		Nodes: []parser.TemplateFileNode{
			parser.HTMLTemplate{Expression: parser.Expression{Value: "t(s string, u templ.SafeURL, c templ.ComponentScript)"}, Children: children},
		},
	}
}

// VerifC16Literals: static text, constant attribute values and doctype text pass through the
// literal writer in a form the development text file (one literal per line, Go-escaped)
// preserves: no raw newline, and unquoting yields the bytes the compiled program writes.
func VerifC16Literals() {
	t := symString("t", symParam("N"))
	var tf parser.TemplateFile
	want := ""
	switch symChoose(3) {
	case 0:
		tf = verifFile(parser.Text{Value: t})
		want = t
	case 1:
		tf = verifFile(parser.Element{Name: "i", Attributes: []parser.Attribute{parser.ConstantAttribute{Name: "k", Value: t}}})
		want = "<i k=\"" + verifEscAttr(t) + "\"></i>"
	case 2:
		tf = verifFile(parser.DocType{Value: t})
		want = "<!doctype " + t + ">"
	}
	code, out, err := verifGen(tf)
	symAssert(err == nil, "generates")
	if err != nil {
		return
	}
	symCover("literals")
	all := ""
	for i, lit := range out.Literals {
		symAssert(!strings.Contains(lit, "\n"), "a literal never contains a raw newline (the text file is split on newlines)")
		u, uerr := strconv.Unquote("\"" + lit + "\"")
		symAssert(uerr == nil, "every literal is a valid Go string body")
		if uerr != nil {
			return
		}
		all += u
		// the generated file holds the same literal text at the same index
		symAssert(strings.Contains(code, "templruntime.WriteString(templ_7745c5c3_Buffer, "+strconv.Itoa(i+1)+", \""+lit+"\")"), "literal i is the argument of the i-th WriteString call")
	}
	symAssertEq(all, want, "unquoting the literals yields the static text")
}

// verifEscAttr: the HTML attribute escaping a constant attribute value needs.
func verifEscAttr(s string) string {
	out := make([]byte, 0, len(s)+8)
	for i := 0; i < len(s); i++ {
		switch s[i] {
		case '&':
			out = append(out, "&amp;"...)
		case '<':
			out = append(out, "&lt;"...)
		case '>':
			out = append(out, "&gt;"...)
		case '"':
			out = append(out, "&#34;"...)
		case '\'':
			out = append(out, "&#39;"...)
		default:
			out = append(out, s[i])
		}
	}
	return string(out)
}

// verifSkeleton is the generated Go text with the contents of the static literals removed.
func verifSkeleton(code string, lits []string) string {
	out := code
	for i, lit := range lits {
		call := "templruntime.WriteString(templ_7745c5c3_Buffer, " + strconv.Itoa(i+1) + ", \""
		k := strings.Index(out, call)
		if k < 0 {
			return "<<literal call not found>>"
		}
		k += len(call)
		out = out[:k] + out[k+len(lit):]
	}
	return out
}

var verifAttrNames = []string{"title", "class", "style", "href", "onclick", "hx-on:x", "id", "action"}

// VerifC16HasChanged: whenever an edit is classified as needing no recompilation, the code
// generated for the edited template must be the already compiled code (same skeleton): then
// the running program, reading the updated text file, renders the edited template.
func VerifC16HasChanged() {
	var a, b parser.TemplateFile
	expr := parser.Expression{Value: "s"}
	switch symChoose(5) {
	case 4: // a static element moves across a block (if / for): same literal count, same expressions
		cond := parser.Expression{Value: "show"}
		inner := []parser.Node{parser.Element{Name: "p", Children: []parser.Node{parser.Text{Value: "details"}}}}
		var blk parser.Node = parser.IfExpression{Expression: cond, Then: inner}
		if symBool("loop") {
			blk = parser.ForExpression{Expression: parser.Expression{Value: "_, x := range xs"}, Children: inner}
		}
		stat := parser.Element{Name: "div", Children: []parser.Node{parser.Text{Value: symString("t1", symParam("T"))}}}
		a = verifFile(blk, stat)
		b = verifFile(stat, blk)
		if symBool("intoBlock") { // ... or into the block
			b = verifFile(parser.IfExpression{Expression: cond, Then: append([]parser.Node{stat}, inner...)})
			a = verifFile(stat, parser.IfExpression{Expression: cond, Then: inner})
		}
	case 0: // attribute rename on a symbolic element
		el := []string{"div", "a", "form"}[symChoose(3)]
		n1, n2 := verifAttrNames[symChoose(len(verifAttrNames))], verifAttrNames[symChoose(len(verifAttrNames))]
		if symBool("free") {
			n1 = symString("n1", symParam("A"))
			symAssume(len(n1) > 0)
			for i := 0; i < len(n1); i++ {
				c := n1[i] // the characters the attribute-name parser accepts
				symAssume((c >= 'a' && c <= 'z') || (c >= '0' && c <= '9') || c == '-' || c == ':' || c == '_' || c == '.' || c == '@')
			}
		}
		a = verifFile(parser.Element{Name: el, Attributes: []parser.Attribute{parser.ExpressionAttribute{Name: n1, Expression: expr}}})
		b = verifFile(parser.Element{Name: el, Attributes: []parser.Attribute{parser.ExpressionAttribute{Name: n2, Expression: expr}}})
	case 1: // text edit
		a = verifFile(parser.Element{Name: "p", Children: []parser.Node{parser.Text{Value: symString("t1", symParam("T"))}, parser.StringExpression{Expression: expr}}})
		b = verifFile(parser.Element{Name: "p", Children: []parser.Node{parser.Text{Value: symString("t2", symParam("T"))}, parser.StringExpression{Expression: expr}}})
	case 2: // expression moves between text, attribute and boolean-attribute / spread position
		forms := []parser.Node{
			parser.Element{Name: "p", Children: []parser.Node{parser.StringExpression{Expression: expr}}},
			parser.Element{Name: "p", Attributes: []parser.Attribute{parser.ExpressionAttribute{Name: "title", Expression: expr}}},
			parser.Element{Name: "p", Attributes: []parser.Attribute{parser.BoolExpressionAttribute{Name: "hidden", Expression: expr}}},
			parser.Element{Name: "p", Attributes: []parser.Attribute{parser.SpreadAttributes{Expression: expr}}},
			parser.Element{Name: "p", Children: []parser.Node{parser.CallTemplateExpression{Expression: expr}}},
		}
		a = verifFile(forms[symChoose(len(forms))])
		b = verifFile(forms[symChoose(len(forms))])
	case 3: // reordering two nodes
		x := parser.Element{Name: "a", Children: []parser.Node{parser.StringExpression{Expression: expr}}}
		y := parser.Element{Name: "b", Children: []parser.Node{parser.StringExpression{Expression: parser.Expression{Value: []string{"s", "s+s"}[symChoose(2)]}}}}
		a = verifFile(x, y)
		b = verifFile(y, x)
	}
	ca, oa, err1 := verifGen(a)
	cb, ob, err2 := verifGen(b)
	symAssert(err1 == nil && err2 == nil, "both generate")
	if err1 != nil || err2 != nil {
		return
	}
	symCover("pair")
	if HasChanged(oa, ob) {
		symCover("recompile")
		return
	}
	symCover("text-only")
	symAssertEq(verifSkeleton(cb, ob.Literals), verifSkeleton(ca, oa.Literals), "an edit classified as text-only leaves the compiled code valid for the new text")
}
