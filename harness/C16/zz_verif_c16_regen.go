package generatecmd

import (
	"bytes"
	"context"
	"io"
	"log/slog"
	"strings"

	"github.com/a-h/templ/generator"
	parser "github.com/a-h/templ/parser/v2"
	"github.com/a-h/templ/runtime"
)

var verifRegenVariants = []string{
	"package p\n\ntempl t(name string) {\n\t<p>Hello, { name }!</p>\n}\n",
	"package p\n\ntempl t(name string) {\n\t<p>Hello{ name }, !</p>\n}\n",   // text moved across the expression
	"package p\n\ntempl t(name string) {\n\t<p>Hello, { name }?</p>\n}\n",    // text edit
	"package p\n\ntempl t(name string) {\n\t<p title={ name }>Hello, !</p>\n}\n", // expression moved into an attribute
	"package p\n\ntempl t(name string) {\n\t<p>Hel</p><p>lo, { name }!</p>\n}\n",
}

// VerifC16Regenerate: a watch session generates a template, the file is edited, and it is
// generated again by the same handler: the development text file on disk must then be the one
// a fresh generation of the edited template writes (so that the running program renders the
// edited template), whatever the handler's change detection decided.
func VerifC16Regenerate() {
	a := verifRegenVariants[symChoose(len(verifRegenVariants))]
	b := verifRegenVariants[symChoose(len(verifRegenVariants))]
	const file = "/tmp/zzverif_c16_regen.templ"
	var written [][]byte
	h := NewFSEventHandler(slog.New(slog.NewTextHandler(io.Discard, nil)), "/tmp", true, nil, false, false,
		func(name string, contents []byte) error { written = append(written, contents); return nil }, false)
	ctx := context.Background()
	symSetFile(file, a)
	_, _, err := h.generate(ctx, file)
	symAssert(err == nil, "first generation succeeds")
	symSetFile(file, b)
	res, _, err := h.generate(ctx, file)
	symAssert(err == nil, "second generation succeeds")
	symCover("regenerated")
	// what a fresh generation of b produces
	tf, perr := parser.ParseString(b)
	symAssert(perr == nil, "variant parses")
	var buf bytes.Buffer
	out, gerr := generator.Generate(tf, &buf, generator.WithFileName("zzverif_c16_regen.templ"))
	symAssert(gerr == nil, "variant generates")
	txt, ok := symGetFile(runtime.GetDevModeTextFileName(file))
	symAssert(ok, "the development text file exists")
	symAssertEq(txt, strings.Join(out.Literals, "\n"), "the development text file on disk is the one of the edited template")
	if a == b {
		symAssert(!res.GoUpdated && !res.TextUpdated, "an unchanged file needs neither recompilation nor a new text file")
	}
}
