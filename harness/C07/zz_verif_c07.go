package parser

var verifC07Alphabet = []string{"a", "\n", "é", "€", "😀"}

// VerifC07Add: the per-rune tables written by SourceMap.Add, from arbitrary start positions.
func VerifC07Add() {
	n := symChoose(symParam("N") + 1)
	v := ""
	for i := 0; i < n; i++ {
		v += verifC07Alphabet[symChoose(len(verifC07Alphabet))]
	}
	sl, sc, tl, tc := symUint32("srcLine"), symUint32("srcCol"), symUint32("tgtLine"), symUint32("tgtCol")
	si, ti := symInt64("srcIndex"), symInt64("tgtIndex")
	// positions far from the uint32 / int64 limits (a file is smaller than 2^30 bytes)
	symAssume(sl < 1<<30 && sc < 1<<30 && tl < 1<<30 && tc < 1<<30 && si >= 0 && si < 1<<40 && ti >= 0 && ti < 1<<40)
	symAssume(sl != tl || true)
	sm := NewSourceMap()
	src := Expression{Value: v, Range: Range{From: Position{Index: si, Line: sl, Col: sc}}}
	tgt := Range{From: Position{Index: ti, Line: tl, Col: tc}}
	sm.Add(src, tgt)
	symCover("added")
	// walk v: every rune start and the position just past the end of each line
	line, col := uint32(0), uint32(0)
	off := 0
	for {
		atEnd := off == len(v)
		// expected source and target positions of byte offset off
		eSrcLine, eTgtLine := sl+line, tl+line
		eSrcCol, eTgtCol := col, col
		if line == 0 {
			eSrcCol, eTgtCol = sc+col, tc+col
		}
		got, ok := sm.TargetPositionFromSource(eSrcLine, eSrcCol)
		symAssert(ok, "every rune start (and each line end) of the expression has a target position")
		if ok {
			symAssert(got.Index == ti+int64(off) && got.Line == eTgtLine && got.Col == eTgtCol, "target position = target start advanced by the same bytes and newlines")
			back, ok2 := sm.SourcePositionFromTarget(got.Line, got.Col)
			symAssert(ok2 && back.Index == si+int64(off) && back.Line == eSrcLine && back.Col == eSrcCol, "mapping the target position back returns the source line, column and index")
		}
		if atEnd {
			break
		}
		c := v[off]
		w := 1
		switch {
		case c >= 0xF0:
			w = 4
		case c >= 0xE0:
			w = 3
		case c >= 0xC0:
			w = 2
		}
		if c == '\n' {
			line++
			col = 0
		} else {
			col += uint32(w)
		}
		off += w
	}
	symAssert(len(sm.Expressions) == 1 && sm.Expressions[0] == v, "the expression text is recorded")
}
