package generator

import (
	"bytes"

	parser "github.com/a-h/templ/parser/v2"
)

var verifC07Seeds = []string{
	"// header\npackage p\n\nimport \"fmt\"\n\nvar top§ = fmt.Sprint(1)\n\ncss k(§ string) {\n\tcolor: { § };\n}\n\ntempl a(§ string, xs []string) {\n\t<div title={ § } hidden?={ § == \"\" } { attrs(§)... }\n\t\tif § != \"\" {\n\t\t\tclass=\"c\"\n\t\t} else {\n\t\t\tclass={ § }\n\t\t}\n\t>é { § }</div>\n\tif § == \"a\" {\n\t\tx\n\t} else if § == \"b\" {\n\t\ty\n\t}\n\tfor _, v := range xs {\n\t\t{ v }{ § }\n\t}\n\tswitch § {\n\t\tcase \"q\":\n\t\t\tz\n\t\tcase \"r\":\n\t\t\t<b>k</b>\n\t\tdefault:\n\t\t\tm\n\t}\n\t<b>k</b>\n\t{{ w := § }}\n\t<i class={ § }></i>\n\t@b(w)\n\t<script>var q = {{ § }};</script>\n\t{ fmt.Sprint(\n\t\t§,\n\t\t\"é\",\n\t) }\n}\n\ntempl b(s string) {\n\t{ s }\n}\n\nfunc attrs(s string) map[string]any {\n\treturn nil\n}\n",
	// expressions padded with white space inside their braces ('¶' = symbolic white space that may
	// hold a line break); top-level Go blocks that end in a comment line (doc comments, trailing comment)
	"package p\n\n// k is § ¤\ncss k(§ string) {\n\tcolor: {¶§¶};\n}\n\nvar v§ = \"¤\"\n\n// a shows §\ntempl a(§ string) {\n\t<div title={¶§ + \"¤\"¶}>{¶§¶}</div>\n}\n\n// end §\n",
}

func verifC07Ident(name string, max int) string {
	s := symString(name, max)
	symAssume(len(s) >= 1)
	for i := 0; i < len(s); i++ {
		c := s[i]
		if i == 0 {
			symAssume((c >= 'a' && c <= 'z') || c == '_')
		} else {
			symAssume((c >= 'a' && c <= 'z') || c == '_' || (c >= '0' && c <= '9'))
		}
	}
	for _, kw := range []string{"if", "go", "for", "var", "map"} {
		symAssume(s != kw) // Go keywords are not identifiers
	}
	return s
}

// verifC07Pos: line = newlines before index, col = bytes since the last newline.
func verifC07Pos(text string, index int) (line, col int) {
	last := -1
	for i := 0; i < index && i < len(text); i++ {
		if text[i] == '\n' {
			line++
			last = i
		}
	}
	return line, index - last - 1
}

// VerifC07Generate: for every expression of the parsed file and every rune start in it, the
// generated text at the mapped position holds the same byte.
func VerifC07Generate() {
	seed := verifC07Seeds[symChoose(len(verifC07Seeds))]
	id := verifC07Ident("id", symParam("ID"))
	if symBool("multibyte") {
		id += "é"
	}
	crlf := symBool("crlf")
	// a character of 2, 3 or 4 bytes inside string literals and comments of Go code ('¤'); U+FFFD
	// is a valid character whose decoding equals utf8.RuneError
	wide := []string{"é", "\uFFFD", "\U0001F600", "€"}[symChoose(4)]
	pad := " "
	for i := 0; i+1 < len(seed); i++ {
		if seed[i] == 0xC2 && seed[i+1] == 0xB6 {
			pad = symString("pad", 2)
			symAssume(len(pad) >= 1)
			for j := 0; j < len(pad); j++ {
				symAssume(pad[j] == ' ' || pad[j] == '\t' || pad[j] == '\n')
			}
			break
		}
	}
	src := ""
	for i := 0; i < len(seed); i++ {
		if seed[i] == 0xC2 && i+1 < len(seed) && seed[i+1] == 0xA7 {
			src += id
			i++
			continue
		}
		if seed[i] == 0xC2 && i+1 < len(seed) && seed[i+1] == 0xB6 {
			src += pad
			i++
			continue
		}
		if seed[i] == 0xC2 && i+1 < len(seed) && seed[i+1] == 0xA4 {
			src += wide
			i++
			continue
		}
		if seed[i] == '\n' && crlf {
			src += "\r"
		}
		src += string(seed[i])
	}
	tf, err := parser.ParseString(src)
	symAssert(err == nil, "seed parses")
	if err != nil {
		return
	}
	var buf bytes.Buffer
	out, err := Generate(tf, &buf)
	symAssert(err == nil, "seed generates")
	if err != nil {
		return
	}
	if symBool("again") {
		// the parsed file is generated a second time (watch mode, LSP): same demands
		buf.Reset()
		out, err = Generate(tf, &buf)
		symAssert(err == nil, "seed generates again")
		if err != nil {
			return
		}
	}
	gen := buf.String()
	sm := out.SourceMap
	w := parser.VerifCollect(tf)
	symCover("generated")
	checked := 0
	for _, e := range w.Exprs {
		v := e.Expr.Value
		if len(v) == 0 {
			continue
		}
		line, col := e.Expr.Range.From.Line, e.Expr.Range.From.Col
		idx := int(e.Expr.Range.From.Index)
		for off := 0; off <= len(v); {
			tgt, ok := sm.TargetPositionFromSource(line, col)
			symAssert(ok, "every position of a Go expression is mapped ("+e.Slot+")")
			if !ok {
				break
			}
			if off == len(v) {
				break
			}
			symAssert(tgt.Index >= 0 && int(tgt.Index) < len(gen), "mapped position lies inside the generated file ("+e.Slot+")")
			if tgt.Index >= 0 && int(tgt.Index) < len(gen) {
				symAssert(gen[tgt.Index] == src[idx+off], "the generated file holds the same byte at the mapped position ("+e.Slot+")")
				gl, gc := verifC07Pos(gen, int(tgt.Index))
				symAssert(int(tgt.Line) == gl && int(tgt.Col) == gc, "the mapped line and column address the same byte of the generated file as the index ("+e.Slot+")")
				back, ok2 := sm.SourcePositionFromTarget(tgt.Line, tgt.Col)
				symAssert(ok2 && back.Line == line && back.Col == col && int(back.Index) == idx+off, "mapping back returns the source line, column and index ("+e.Slot+")")
			}
			checked++
			c := v[off]
			wd := 1
			switch {
			case c >= 0xF0:
				wd = 4
			case c >= 0xE0:
				wd = 3
			case c >= 0xC0:
				wd = 2
			}
			if c == '\n' {
				// the position just past the end of the line is mapped too (checked above as "ok")
				line++
				col = 0
			} else {
				col += uint32(wd)
			}
			off += wd
		}
	}
	symAssert(checked > 20, "the walk visited the expressions")
}
