#!/bin/bash
# usage: mutrun.sh <PROPERTY> <diff> [tier]  -- applies the diff to /repo, runs the check, restores /repo
set -u
id="$1"; diff="$2"; tier="${3:-quick}"
cd /repo || exit 2
if [ -n "$(git status --porcelain)" ]; then echo "REPO NOT CLEAN"; exit 2; fi
git apply "$diff" || { echo "APPLY FAILED"; exit 2; }
cd /verif && timeout 3000 ./check "$id" --tier "$tier" > /tmp/mutrun.$$.log 2>&1
code=$?
cd /repo && git checkout -q -- . && git clean -fdq
echo "exit=$code"
grep -E "^(VIOLATION|KNOWN-FINDING|INCONCLUSIVE|ENCODER|SCHEDULE|ERROR|RESULT)" /tmp/mutrun.$$.log | cut -c1-260 | head -8
grep -E "^  run=" /tmp/mutrun.$$.log | cut -c1-300 | head -3
rm -f /tmp/mutrun.$$.log
