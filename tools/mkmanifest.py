#!/usr/bin/env python3
"""Regenerates /verif/MANIFEST.json from the table below (single source of truth for claims)."""
import json, os

BASELINE = "for m in . ./runtime/fuzzing; do (cd /repo/$m && go test -mod=mod -json -vet=off -count=1 -timeout 25m ./...); done"

CHECKS = {}      # id -> dict(level, text, note, technique, design)
NA = {}          # id -> reason

def claim(pid, level, text, note, technique, design):
    CHECKS[pid] = dict(level=level, text=text, note=note, technique=technique, design=design)

exec(open(os.path.join(os.path.dirname(__file__), "claims.py")).read())

checks = []
for pid in sorted(CHECKS):
    c = CHECKS[pid]
    checks.append({
        "property_id": pid,
        "quick_cmd": f"./check {pid} --tier quick",
        "thorough_cmd": f"./check {pid} --tier thorough",
        "evidence_file": f"/verif/evidence/{pid}.json",
        "replay_cmd_template": f"./check {pid} --replay {{path}}",
        "engine": "symgo",
        "level_claimed": {"category": c["level"], "text": c["text"], "design_ref": c["design"]},
        "level_note": c["note"],
        "technique": c["technique"],
    })
m = {
    "version": 1,
    "setup_cmd": "cd /verif/symgo && GOFLAGS=-mod=mod GOPROXY=off GOSUMDB=off GOTOOLCHAIN=local go build -o /verif/bin/vcheck ./cmd/vcheck",
    "hooks": {
        "guard": "verif",
        "enable": "no source hooks: harnesses and regenerated code are injected through go/packages overlays and `go test -overlay`; /repo is never written to by a check",
        "baseline_off_cmd": BASELINE,
        "source_commits": [],
        "add_only": True,
    },
    "engines": [{
        "name": "symgo",
        "path": "/verif/symgo",
        "serves_properties": sorted(CHECKS),
        "kind_free_text": "symbolic executor for Go SSA (golang.org/x/tools/go/ssa v0.29.0) written for this task: concrete heap shape, symbolic scalars/bytes as QF_BV terms, path exploration by re-execution with decision prefixes, z3 4.8.12 over a pipe per worker, native replay of every counterexample via go test -overlay",
    }],
    "checks": checks,
    "not_applicable": [{"property_id": k, "reason": NA[k]} for k in sorted(NA)],
    "notes": "All checks are bounded: exit 0 means every assertion was discharged (unsat) on every feasible path within the bounds recorded in the evidence file; solver unknown/timeouts, unsupported calls, exhausted budgets and encoder mismatches exit 2 (inconclusive), never 0. Known findings live in /verif/known-findings.json.",
}
json.dump(m, open("/verif/MANIFEST.json", "w"), indent=1)
print("wrote MANIFEST.json:", len(checks), "checks,", len(NA), "not applicable")
