#!/usr/bin/env python3
"""Stores confirmed seeded changes under /verif/seeded and records which check run catches each.
usage: seed_all.py <ID:i[:demo_dir]> ...   (reads /tmp/mut/<ID>.out, confirmation logs in /tmp/mut/confirm*.log)"""
import sys, os, json, shutil, subprocess, re

def confirm_result(id_, i):
    res = None
    for log in sorted(os.listdir('/tmp/mut')):
        if not log.startswith('confirm') or not log.endswith('.log'): continue
        cur = None
        for line in open('/tmp/mut/'+log):
            if line.startswith('==='): cur = line.strip()
            if line.startswith('RESULT') and cur == f'=== {id_} mut{i}' and (('_r3' in log) == (rnd == 'r3')): res = line.strip()
    return res

for arg in sys.argv[1:]:
    parts = arg.split(':')
    id_, i = parts[0], parts[1]
    rnd = parts[3] if len(parts) > 3 else 'out'
    out = f'/tmp/mut/{id_}.{rnd}'
    n = int(i) + (2 if rnd == 'r3' else 0) + (4 if rnd == 'r4' else 0)
    if rnd == 'r6':
        n = int(i) + 6
    if rnd == 'r5':
        n = int(i) + (2 if id_ == 'C15' else 4)
    dst = f'/verif/seeded/{id_}-{n}'
    os.makedirs(dst, exist_ok=True)
    shutil.copy(f'{out}/mut{i}.diff', f'{dst}/patch.diff')
    shutil.copy(f'{out}/mut{i}_demo_test.go', f'{dst}/demo_test.go')
    desc = open(f'{out}/mut{i}.md').read()
    r = subprocess.run(['/verif/tools/mutrun.sh', id_, f'{dst}/patch.diff', 'quick'], capture_output=True, text=True)
    lines = r.stdout.strip().split('\n')
    exitc = lines[0] if lines else ''
    runs = sorted(set(re.findall(r'replay=/verif/replays/[A-Z0-9]+/(.+?)-\d+\.json', r.stdout)))
    assertion = re.findall(r'assertion="([^"]+)"', r.stdout)[:1]
    meta = {
        "property": id_,
        "source": "written by an independent sub-agent that saw only the property text and its own scratch worktree of /repo",
        "what_it_is_and_what_it_needs_to_manifest": desc,
        "confirmed_in_scratch_worktree": confirm_result(id_, i),
        "confirmation_cmd": f"tools/confirm_mutation.sh /tmp/mut/{id_} /tmp/mut/{id_}.out {i}  (git apply, go build ./..., go test -vet=off -count=1 on every package except cmd/templ/lspcmd, demo with and without the change)",
        "demo_package_dir": parts[2] if len(parts) > 2 else "see description",
        "check_cmd": f"git -C /repo apply /verif/seeded/{id_}-{n}/patch.diff && ./check {id_} --tier quick; git -C /repo checkout -- .",
        "check_result": exitc,
        "caught_by_runs": runs,
        "first_failing_assertion": assertion[0] if assertion else None,
    }
    json.dump(meta, open(f'{dst}/meta.json', 'w'), indent=1)
    print(id_, n, exitc, runs)
