SYM = "symbolic execution of the real Go code from go/ssa with SMT (z3, QF_BV): every path condition and assertion decided by the solver, counterexamples replayed natively"

claim("C04", "model_checking",
      "Bounded symbolic model checking of templ.URL: every string up to the bound over all 256 byte values is covered by path conditions; on each path the solver proves that an unchanged result implies 'no scheme or allow-listed scheme' under a WHATWG scheme-extraction reference automaton.",
      "Trusted: the symgo interpreter and its intrinsics (validated per run by native differential execution of sampled paths), z3, and the reference automaton in harness/C04. Bound: string length (see evidence). Longer strings are outside the claim.",
      SYM, "DESIGN.md section 3 C04")
claim("C17", "model_checking",
      "Bounded symbolic model checking of Document.Apply: arbitrary document over {letter, newline} up to the bound, range = four unconstrained uint32 (start <= end), replacement text up to the bound; solver proves equality with a byte-splice reference and re-establishment of the representation invariant (inductive step), plus full-replace and two-step runs.",
      "Trusted: symgo + z3 + the splice reference in harness/C17. Bounds: document and replacement length (see evidence). The one-step result composes to sequences because the invariant is re-established; documents longer than the bound are outside the claim.",
      SYM, "DESIGN.md section 3 C17")

for pid in ["C01","C02","C03","C05","C06","C07","C08","C09","C10","C11","C12","C13","C15","C16","C18","C19","C20"]:
    NA[pid] = "check not built yet in this session (work in progress; see DESIGN.md section 7 for the order)"
NA["C14"] = "data-race freedom and schedule independence need the Go memory model at every access and the real sync.Pool; the symbolic executor models the pool and is sequentially consistent, so it cannot exhibit a race in the code it replaces"
