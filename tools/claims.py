SYM = "symbolic execution of the real Go code from go/ssa with SMT (z3, QF_BV): every path condition and assertion decided by the solver, counterexamples replayed natively"

claim("C04", "model_checking",
      "Bounded symbolic model checking of templ.URL: every string up to the bound over all 256 byte values is covered by path conditions; on each path the solver proves that an unchanged result implies 'no scheme or allow-listed scheme' under a WHATWG scheme-extraction reference automaton.",
      "Trusted: the symgo interpreter and its intrinsics (validated per run by native differential execution of sampled paths), z3, and the reference automaton in harness/C04. Bound: string length (see evidence). Longer strings are outside the claim.",
      SYM, "DESIGN.md section 3 C04")
claim("C17", "model_checking",
      "Bounded symbolic model checking of Document.Apply: arbitrary document over {letter, newline} up to the bound, range = four unconstrained uint32 (start <= end), replacement text up to the bound; solver proves equality with a byte-splice reference and re-establishment of the representation invariant (inductive step), plus full-replace and two-step runs.",
      "Trusted: symgo + z3 + the splice reference in harness/C17. Bounds: document and replacement length (see evidence). The one-step result composes to sequences because the invariant is re-established; documents longer than the bound are outside the claim.",
      SYM, "DESIGN.md section 3 C17")

claim("C01", "model_checking",
      "Bounded symbolic model checking of the HTML escaping sinks: templ.EscapeString (text, double- and single-quoted attribute position), RenderAttributes with all seven value forms, class lists, the id/type/nonce attributes of the JSON script element and the nonce written by writeScriptHeader. For every string up to the bound over all 256 byte values the output is re-read by a reference HTML5 tokenizer and the solver proves: exactly the author's tags/attributes, the string verbatim as one text run / attribute value.",
      "Trusted: symgo + z3, the reference tokenizer in harness/common/zz_verif_html.go (known references amp/lt/gt/quot/apos/ASCII numeric; anything else counts as failure), the fmt/json models (validated natively per run). Attribute keys are concrete. Bound: string length (see evidence).",
      SYM, "DESIGN.md section 3 C01")
claim("C03", "model_checking",
      "Bounded symbolic model checking of the JavaScript sinks: ScriptContentInsideStringLiteral in ', \" and ` literals, ScriptContentOutsideStringLiteral for six value shapes, SafeScript/SafeScriptInline/JSFuncCall, and the JSON script body. For every string leaf up to the bound over all byte values a reference ECMAScript literal lexer / JSON reader must read exactly one literal or value whose decoded content equals the Go value, and the text must not be able to end the script element, the literal or the attribute, nor open a comment or a template interpolation.",
      "Trusted: symgo + z3, the reference lexers in harness/common/zz_verif_jsref.go, the structural json.Marshal model (string leaves go through the real encoding/json.appendString). Regular-expression literals and longer values are outside the claim.",
      SYM, "DESIGN.md section 3 C03")
claim("C05", "model_checking",
      "Bounded symbolic model checking of safehtml.SanitizeCSS per property class (background-image, font-family, display, a listed regular property, an unlisted name, mixed case), arbitrary property names, framed url()/quoted/list shapes and SanitizeStyleValue: the sanitised value is run through a reference CSS tokenizer automaton and the solver proves it cannot end the declaration, rule, style element or string, open a comment, call a function other than url(), or carry a url whose WHATWG scheme is not http/https/mailto - or it is the fixed innocuous value.",
      "Trusted: symgo + z3, the conservative CSS automaton in harness/common/zz_verif_cssref.go, the regexp NFA model for the five patterns taken from the current source. Bound: value/name length (see evidence).",
      SYM, "DESIGN.md section 3 C05")

for pid in ["C02","C06","C07","C08","C09","C10","C11","C12","C13","C15","C16","C18","C19","C20"]:
    NA[pid] = "check not built yet in this session (work in progress; see DESIGN.md section 7 for the order)"
NA["C14"] = "data-race freedom and schedule independence need the Go memory model at every access and the real sync.Pool; the symbolic executor models the pool and is sequentially consistent, so it cannot exhibit a race in the code it replaces"
