#!/bin/bash
# usage: confirm_mutation.sh <worktree> <outdir> <i>
# Confirms in a scratch worktree that mutation i (a) applies, (b) builds, (c) passes the existing
# test suite (cmd/templ/lspcmd excluded: it fails on the unchanged tree, gopls missing),
# (d) its demo fails with the change and passes without it.
set -u
export GOFLAGS=-mod=mod GOPROXY=off GOSUMDB=off GOTOOLCHAIN=local
wt="$1"; out="$2"; i="$3"
cd "$wt" || exit 2
git checkout -q -- . && git clean -fdq
pkgdir=$(grep -oE '`[^`]*`' "$out/mut$i.md" | tr -d '`' | grep -E '^(\./)?(generator|runtime|safehtml|parser|cmd|lsp|internal)(/[A-Za-z0-9_./-]*)?/?$' | head -1)
if grep -qiE "repo(sitory)? root|package .templ_test.|package .templ.\b" "$out/mut$i.md" && [ -z "$pkgdir" ]; then pkgdir="."; fi
[ -n "${DEMO_DIR:-}" ] && pkgdir="$DEMO_DIR"
[ -z "$pkgdir" ] && pkgdir="."
echo "demo package dir: $pkgdir"
git apply "$out/mut$i.diff" || { echo "RESULT apply=FAIL"; exit 1; }
go build ./... > /tmp/confirm.$$.build 2>&1 && build=ok || build=FAIL
pkgs=$(go list ./... | grep -v cmd/templ/lspcmd$)
go test -vet=off -count=1 $pkgs > /tmp/confirm.$$.suite 2>&1 && suite=ok || suite=FAIL
cp "$out/mut${i}_demo_test.go" "$pkgdir/zz_mut_demo_test.go"
go test -vet=off -count=1 "./$pkgdir" > /tmp/confirm.$$.with 2>&1 && with=PASS || with=FAIL
git checkout -q -- . && git clean -fdq
cp "$out/mut${i}_demo_test.go" "$pkgdir/zz_mut_demo_test.go"
go test -vet=off -count=1 "./$pkgdir" > /tmp/confirm.$$.without 2>&1 && without=PASS || without=FAIL
git checkout -q -- . && git clean -fdq
echo "RESULT build=$build suite=$suite demo_with_change=$with demo_without_change=$without"
[ "$suite" = FAIL ] && grep -E "^(FAIL|---)" /tmp/confirm.$$.suite | head -5
rm -f /tmp/confirm.$$.*
