// vcheck decides one property of /repo by symbolic execution of the harnesses listed in
// /verif/harness/<ID>/spec.json, replays every counterexample against the natively compiled
// code, and writes /verif/evidence/<ID>.json.
package main

import (
	"encoding/json"
	"flag"
	"fmt"
	"os"
	"os/exec"
	"path/filepath"
	"regexp"
	"runtime"
	"runtime/pprof"
	"sort"
	"strconv"
	"strings"
	"time"

	"golang.org/x/tools/go/packages"
	"golang.org/x/tools/go/ssa"
	"golang.org/x/tools/go/ssa/ssautil"

	"symgo/sym"
)

const (
	verifDir = "/verif"
	repoDir  = "/repo"
	modPath  = "github.com/a-h/templ"
)

// Spec is /verif/harness/<ID>/spec.json.
type Spec struct {
	Property string   `json:"property"`
	Level    string   `json:"level"`
	Notes    []string `json:"assumptions"`
	Runs     []Run    `json:"runs"`
	Gen      []GenPkg `json:"gen"`
	// GenRepoTests: also regenerate generator/test-*/ of the repository and type-check them
	GenRepoTests bool `json:"gen_repo_tests"`
}

// GenPkg is a virtual package of regenerated templates.
type GenPkg struct {
	Dir       string   `json:"dir"`       // relative to /repo, e.g. generator/zzverif_c02
	Templates []string `json:"templates"` // relative to /verif/harness/<ID>/
	Extra     []string `json:"extra"`     // extra .go files copied in (relative to harness dir)
}

// Run is one harness entry point.
type Run struct {
	Name              string              `json:"name"`
	Pkg               string              `json:"pkg"` // import path
	Files             []string            `json:"files"`
	Entry             string              `json:"entry"`
	Quick             map[string]int64    `json:"quick"`
	Thorough          map[string]int64    `json:"thorough"`
	Covers            []string            `json:"covers"`
	Bounds            string              `json:"bounds"`
	MaxPaths          int                 `json:"maxpaths"`
	TimeoutS          map[string]int      `json:"timeout_s"`
	Tiers             []string            `json:"tiers"` // restrict to these tiers (default both)
	NoNative          bool                `json:"no_native"`
	Programs          int                 `json:"programs"`
	StepBudget        int64               `json:"step_budget"`
	BudgetIsViolation bool                `json:"step_budget_is_violation"`
	Stubs             map[string]string   `json:"stubs"`
	Schedule          bool                `json:"schedule"`
	Extra             map[string][]string `json:"extra"` // other packages that receive harness files: import path -> files
}

// KnownFile is /verif/known-findings.json.
type KnownFile struct {
	Findings []struct {
		Property string `json:"property"`
		ID       string `json:"id"`
		What     string `json:"what"`
	} `json:"findings"`
	Fixed []string `json:"fixed"`
}

var goEnv = append(os.Environ(), "GOFLAGS=-mod=mod", "GOPROXY=off", "GOSUMDB=off", "GOTOOLCHAIN=local")

var pureStd = map[string]bool{
	"strings": true, "unicode": true, "unicode/utf8": true, "strconv": true, "bytes": true, "bufio": true,
	"sort": true, "slices": true, "maps": true, "io": true, "html": true, "errors": true, "net/url": true,
	"path": true, "path/filepath": true, "go/token": true, "go/scanner": true, "go/ast": true, "go/parser": true,
	"math/bits": true, "cmp": true, "internal/stringslite": true, "unicode/utf16": true,
	"internal/filepathlite": true, "io/fs": true, "internal/oserror": true, "context": true, "math": true, "iter": true, "internal/itoa": true,
	"net/http": false, "net/textproto": false, "html/template": false, "encoding/hex": true, "encoding/base64": true,
	"go/build/constraint": true, "go/internal/typeparams": true, "internal/byteorder": true, "encoding/binary": false,
	"container/list": true, "text/tabwriter": true, "go/printer": true, "go/format": true, "go/doc/comment": true,
}

type runResult struct {
	run        Run
	rep        *sym.Report
	params     map[string]int64
	validated  int
	mismatches []string
	violations []reportedViolation
	known      map[string]string // id -> sample description
	err        string
}

type reportedViolation struct {
	Msg        string
	Inputs     map[string]string
	ReplayPath string
	Reproduced bool
	Native     string
}

func main() {
	tier := flag.String("tier", os.Getenv("VERIF_TIER"), "quick or thorough")
	replay := flag.String("replay", "", "replay file to re-run natively")
	only := flag.String("run", "", "only this run name")
	workers := flag.Int("workers", 0, "parallel workers (default: NumCPU)")
	verbose := flag.Bool("v", false, "verbose")
	trace := flag.Bool("trace", false, "trace interpreted calls (1 worker)")
	noNative := flag.Bool("no-native", false, "skip native validation (debugging only; evidence says so)")
	witness := flag.Bool("witness", false, "vacuity twin: every cover label becomes assert(false) and must be violated")
	cpuprof := flag.String("cpuprofile", "", "write CPU profile")
	paramOverride := flag.String("param", "", "override params: N=5,M=2 (debugging)")
	maxpathsFlag := flag.Int("maxpaths", 0, "path budget override (debugging)")
	flag.Parse()
	if flag.NArg() != 1 {
		fmt.Fprintln(os.Stderr, "usage: vcheck [-tier quick|thorough] [-replay file] <property>")
		os.Exit(2)
	}
	prop := flag.Arg(0)
	if *tier == "" {
		*tier = "quick"
	}
	if *tier != "quick" && *tier != "thorough" {
		fmt.Fprintln(os.Stderr, "tier must be quick or thorough")
		os.Exit(2)
	}
	if *workers == 0 {
		*workers = runtime.NumCPU()
	}
	if *trace {
		*workers = 1
	}
	if *cpuprof != "" {
		f, _ := os.Create(*cpuprof)
		pprof.StartCPUProfile(f)
		defer pprof.StopCPUProfile()
	}
	seed := int64(0)
	if s := os.Getenv("VERIF_SEED"); s != "" {
		seed, _ = strconv.ParseInt(s, 10, 64)
	}
	t0 := time.Now()

	hdir := filepath.Join(verifDir, "harness", prop)
	var spec Spec
	if err := readJSON(filepath.Join(hdir, "spec.json"), &spec); err != nil {
		fatal(2, "cannot read spec: %v", err)
	}
	var kf KnownFile
	_ = readJSON(filepath.Join(verifDir, "known-findings.json"), &kf)
	listed := map[string]bool{}
	what := map[string]string{}
	for _, f := range kf.Findings {
		if f.Property == prop {
			listed[f.ID] = true
			what[f.ID] = f.What
		}
	}

	scratch, err := os.MkdirTemp("", "vcheck-"+prop+"-")
	if err != nil {
		fatal(2, "%v", err)
	}
	cleanupDir = scratch
	defer os.RemoveAll(scratch)

	if *replay != "" {
		exit(doReplay(&spec, hdir, scratch, *replay))
	}

	overrides := map[string]int64{}
	if *paramOverride != "" {
		for _, kv := range strings.Split(*paramOverride, ",") {
			p := strings.SplitN(kv, "=", 2)
			v, _ := strconv.ParseInt(p[1], 10, 64)
			overrides[p[0]] = v
		}
	}

	// ---- regenerate templates with the current generator ----
	ld := newLoader(&spec, hdir, scratch)
	if len(spec.Gen) > 0 {
		if err := ld.regenerate(); err != nil {
			if strings.Contains(err.Error(), "source formatting error") {
				// `templ generate` emitted Go code that gofmt rejects for a corpus template:
				// "generated Go code compiles" is violated before anything can be rendered
				rdir := filepath.Join(verifDir, "replays", prop)
				os.MkdirAll(rdir, 0o755)
				rp := filepath.Join(rdir, "generate-0.json")
				writeJSON(rp, map[string]interface{}{"property": prop, "kind": "generate", "errors": err.Error()})
				fmt.Printf("VIOLATION property=%s replay=%s\n  the current generator emits Go code that does not parse for a corpus template: %v\n", prop, rp, err)
				writeCompileEvidence(prop, *tier, seed, &spec, err.Error(), time.Since(t0))
				exit(1)
			}
			fatal(2, "regeneration failed: %v", err)
		}
	}
	if spec.GenRepoTests && *only == "" {
		if err := ld.regenerateRepoTests(); err != nil {
			fatal(2, "regeneration of the repository's generator tests failed: %v", err)
		}
	}

	// ---- load + SSA ----
	tl := time.Now()
	prog, pkgs, err := ld.load(*only)
	if err != nil {
		if strings.Contains(err.Error(), "_templ.go") && (len(spec.Gen) > 0 || spec.GenRepoTests) {
			// the code emitted by the current generator does not type-check
			rdir := filepath.Join(verifDir, "replays", prop)
			os.MkdirAll(rdir, 0o755)
			rp := filepath.Join(rdir, "compile-0.json")
			writeJSON(rp, map[string]interface{}{"property": prop, "kind": "compile", "errors": err.Error()})
			fmt.Printf("VIOLATION property=%s replay=%s\n  regenerated code does not compile: %v\n", prop, rp, err)
			writeCompileEvidence(prop, *tier, seed, &spec, err.Error(), time.Since(t0))
			exit(1)
		}
		fatal(2, "load failed: %v", err)
	}
	loadTime := time.Since(tl)
	if *verbose {
		fmt.Fprintf(os.Stderr, "load+build %v\n", loadTime.Round(time.Millisecond))
	}

	var results []*runResult
	exitCode := 0
	for _, run := range spec.Runs {
		if *only != "" && run.Name != *only {
			continue
		}
		if len(run.Tiers) > 0 && !contains(run.Tiers, *tier) {
			continue
		}
		params := run.Quick
		if *tier == "thorough" && run.Thorough != nil {
			params = run.Thorough
		}
		if params == nil {
			params = map[string]int64{}
		}
		pc := map[string]int64{}
		for k, v := range params {
			pc[k] = v
		}
		for k, v := range overrides {
			pc[k] = v
		}
		res := &runResult{run: run, params: pc, known: map[string]string{}}
		results = append(results, res)
		pkg := prog.ImportedPackage(run.Pkg)
		if pkg == nil {
			res.err = "package not loaded: " + run.Pkg
			exitCode = 2
			continue
		}
		timeout := 600
		if *tier == "thorough" {
			timeout = 3600
		}
		if t, ok := run.TimeoutS[*tier]; ok {
			timeout = t
		}
		if *maxpathsFlag > 0 {
			run.MaxPaths = *maxpathsFlag
		}
		cfg := &sym.Config{
			Prog: prog, Pkg: pkg, Entry: run.Entry, Workers: *workers, MaxPaths: run.MaxPaths,
			Deadline: time.Now().Add(time.Duration(timeout) * time.Second), Params: pc, KnownListed: listed,
			SampleCases: 24, Trace: *trace, StepBudget: run.StepBudget, BudgetIsViolation: run.BudgetIsViolation,
			InitAllow: func(p string) bool {
				if v, ok := pureStd[p]; ok {
					return v
				}
				return strings.HasPrefix(p, "github.com/a-h/")
			},
			ZeroOK: func(p string) bool {
				return p == "internal/cpu" || p == "internal/bytealg" || p == "unsafe" || p == "internal/godebug" || p == "internal/race"
			},
			Witness:    *witness,
			CrossEvery: crossEvery(*tier),
			Stubs:      run.Stubs,
			Tolerant: func(p string) bool {
				return p == "encoding/json" || p == "net/http" || p == "net/textproto" || p == "mime" || p == "log/slog" || p == "go/types"
			},
		}
		if d := os.Getenv("SYMGO_DUMP"); d != "" {
			for _, name := range strings.Split(d, ",") {
				if f := pkg.Func(name); f != nil {
					f.WriteTo(os.Stderr)
				}
			}
		}
		rep, err := sym.Explore(cfg)
		if err != nil {
			res.err = err.Error()
			exitCode = 2
			fmt.Printf("ERROR run=%s: %v\n", run.Name, err)
			continue
		}
		res.rep = rep
		if *verbose {
			printReport(run, rep)
		}
		if *witness {
			// every cover label must have been "violated"
			hit := map[string]bool{}
			for _, v := range rep.Violations {
				hit[strings.TrimPrefix(v.Msg, "witness: ")] = true
			}
			for _, c := range run.Covers {
				if !hit[c] {
					fmt.Printf("VACUOUS run=%s: cover point %q not reachable\n", run.Name, c)
					exitCode = 2
				}
			}
			fmt.Printf("witness run=%s: %d/%d cover points reached by a satisfiable path\n", run.Name, len(hit), len(run.Covers))
			continue
		}
		// vacuity: every declared cover label reached
		for _, c := range run.Covers {
			if rep.Covers[c] == 0 {
				rep.Inconclusive = append(rep.Inconclusive, "VACUOUS: cover point "+c+" never reached")
			}
		}
		// ---- native validation of sampled paths ----
		if !*noNative && !run.NoNative && len(rep.Cases) > 0 {
			outs, err := ld.native(pkgs, run, rep.Cases)
			if err != nil {
				rep.Inconclusive = append(rep.Inconclusive, "native differential run failed: "+err.Error())
			} else {
				for i, o := range outs {
					if o.status == "MATCH" {
						res.validated++
					} else {
						res.mismatches = append(res.mismatches, fmt.Sprintf("case %d (%v): %s", i, showCase(rep.Cases[i]), o.line))
					}
				}
				if len(res.mismatches) > 0 {
					rep.Inconclusive = append(rep.Inconclusive, fmt.Sprintf("ENCODER-MISMATCH: %d sampled paths disagree with the native run, first: %s", len(res.mismatches), res.mismatches[0]))
				}
			}
		}
		// ---- known findings ----
		for _, k := range rep.Known {
			if _, ok := res.known[k.Known]; !ok {
				res.known[k.Known] = fmt.Sprintf("%s inputs=%v", k.Msg, k.Inputs)
			}
		}
		// ---- violations: replay natively, report those that reproduce ----
		seen := map[string]int{}
		var cands []sym.Violation
		for _, v := range rep.Violations {
			if seen[v.Msg] >= 3 {
				continue
			}
			seen[v.Msg]++
			cands = append(cands, v)
		}
		if len(cands) > 0 {
			var cases []sym.Case
			for _, v := range cands {
				c := v.Case
				c.Entry = run.Entry
				cases = append(cases, c)
			}
			outs, err := ld.native(pkgs, run, cases)
			for i, v := range cands {
				rv := reportedViolation{Msg: v.Msg, Inputs: v.Inputs}
				rdir := filepath.Join(verifDir, "replays", prop)
				os.MkdirAll(rdir, 0o755)
				rv.ReplayPath = filepath.Join(rdir, fmt.Sprintf("%s-%d.json", run.Name, i))
				writeJSON(rv.ReplayPath, map[string]interface{}{"property": prop, "run": run.Name, "tier": *tier, "case": cases[i], "inputs": v.Inputs, "message": v.Msg})
				if err != nil {
					rv.Native = "native replay failed to run: " + err.Error()
				} else {
					rv.Native = outs[i].line
					rv.Reproduced = outs[i].status == "MATCH"
				}
				res.violations = append(res.violations, rv)
			}
		}
	}
	if *witness {
		exit(exitCode)
	}

	// ---- verdict ----
	nviol := 0
	inconclusive := false
	for _, res := range results {
		if res.err != "" {
			inconclusive = true
			continue
		}
		for id, desc := range res.known {
			fmt.Printf("KNOWN-FINDING: property=%s %s [%s] e.g. %s\n", prop, what[id], id, desc)
		}
		for _, v := range res.violations {
			if v.Reproduced {
				fmt.Printf("VIOLATION property=%s replay=%s\n", prop, v.ReplayPath)
				fmt.Printf("  run=%s assertion=%q inputs=%v\n", res.run.Name, v.Msg, v.Inputs)
				nviol++
			} else {
				label := "ENCODER-MISMATCH"
				if res.run.Schedule {
					label = "SCHEDULE-NOT-REPRODUCED-NATIVELY (40 attempts; the interleaving cannot be forced on the native runtime)"
				}
				fmt.Printf("%s run=%s: counterexample for %q did not reproduce natively (%s) inputs=%v\n", label, res.run.Name, v.Msg, v.Native, v.Inputs)
				inconclusive = true
			}
		}
		for _, s := range res.rep.Inconclusive {
			fmt.Printf("INCONCLUSIVE run=%s: %s\n", res.run.Name, s)
			inconclusive = true
		}
	}
	extraPrograms = ld.programs
	writeEvidence(prop, *tier, seed, &spec, results, loadTime, time.Since(t0), nviol, *noNative)
	for _, res := range results {
		if res.rep != nil {
			fmt.Printf("run=%s params=%v paths=%d queries=%d (sat %d unsat %d unknown %d) solver=%.1fs wall=%.1fs validated=%d known=%d violations=%d\n",
				res.run.Name, res.params, res.rep.Paths, res.rep.Queries, res.rep.Sat, res.rep.Unsat, res.rep.Unknown, res.rep.SolveTime.Seconds(), res.rep.Wall.Seconds(), res.validated, len(res.known), len(res.violations))
		}
	}
	switch {
	case nviol > 0:
		exit(1)
	case inconclusive || exitCode != 0:
		fmt.Printf("RESULT property=%s tier=%s INCONCLUSIVE\n", prop, *tier)
		exit(2)
	}
	fmt.Printf("RESULT property=%s tier=%s HOLDS within bounds (%.1fs)\n", prop, *tier, time.Since(t0).Seconds())
}

func showCase(c sym.Case) string {
	var parts []string
	for k, v := range c.Strs {
		parts = append(parts, fmt.Sprintf("%s=%q", k, string(v)))
	}
	for k, v := range c.Ints {
		parts = append(parts, fmt.Sprintf("%s=%d", k, v))
	}
	sort.Strings(parts)
	return strings.Join(parts, " ")
}

func printReport(run Run, rep *sym.Report) {
	fmt.Fprintf(os.Stderr, "== run %s entry %s: paths=%d nontrivial=%d maxDecisions=%d ended=%v wall=%v\n", run.Name, run.Entry, rep.Paths, rep.Nontrivial, rep.MaxDecisions, rep.Ended, rep.Wall.Round(time.Millisecond))
	fmt.Fprintf(os.Stderr, "   solver: queries=%d sat=%d unsat=%d unknown=%d errors=%d time=%v; covers=%v\n", rep.Queries, rep.Sat, rep.Unsat, rep.Unknown, rep.Errors, rep.SolveTime.Round(time.Millisecond), rep.Covers)
	type kv struct {
		k string
		v int64
	}
	var fs []kv
	for k, v := range rep.FuncHits {
		fs = append(fs, kv{k, v})
	}
	sort.Slice(fs, func(i, j int) bool { return fs[i].v > fs[j].v })
	for i, f := range fs {
		if i >= 10 {
			break
		}
		fmt.Fprintf(os.Stderr, "   %8d %s\n", f.v, f.k)
	}
	seen := map[string]bool{}
	for _, v := range rep.Violations {
		if !seen[v.Msg] {
			seen[v.Msg] = true
			fmt.Fprintf(os.Stderr, "   candidate: %s inputs=%v path=%s\n", v.Msg, v.Inputs, v.Path)
		}
	}
}

func contains(xs []string, x string) bool {
	for _, y := range xs {
		if y == x {
			return true
		}
	}
	return false
}

// crossEvery: how often an assertion query is re-decided by z3-new and cvc5.
func crossEvery(tier string) int {
	if v := os.Getenv("VERIF_CROSS_EVERY"); v != "" {
		n, _ := strconv.Atoi(v)
		return n
	}
	if tier == "thorough" {
		return 200
	}
	return 2000
}

var cleanupDir string
var extraPrograms int

func exit(code int) {
	if cleanupDir != "" {
		os.RemoveAll(cleanupDir)
	}
	pprof.StopCPUProfile()
	os.Exit(code)
}

func fatal(code int, f string, a ...interface{}) {
	fmt.Printf("ERROR: "+f+"\n", a...)
	exit(code)
}

func readJSON(path string, v interface{}) error {
	b, err := os.ReadFile(path)
	if err != nil {
		return err
	}
	return json.Unmarshal(b, v)
}

func writeJSON(path string, v interface{}) {
	b, _ := json.MarshalIndent(v, "", " ")
	os.WriteFile(path, b, 0o644)
}

// ---- loading ----

type loader struct {
	spec          *Spec
	hdir          string
	scratch       string
	overlay       map[string]string // virtual path under /repo -> real file
	pkgDirs       map[string]string // import path -> dir
	pkgName       map[string]string
	genWork       []string
	extraPatterns []string
	programs      int
}

func newLoader(spec *Spec, hdir, scratch string) *loader {
	return &loader{spec: spec, hdir: hdir, scratch: scratch, overlay: map[string]string{}, pkgDirs: map[string]string{}, pkgName: map[string]string{}}
}

func pkgDirOf(importPath string) string {
	if importPath == modPath {
		return repoDir
	}
	return filepath.Join(repoDir, strings.TrimPrefix(importPath, modPath+"/"))
}

var pkgClause = regexp.MustCompile(`(?m)^package\s+(\w+)`)

func (ld *loader) load(only string) (*ssa.Program, []*packages.Package, error) {
	patterns, err := ld.prepareOverlay(only)
	if err != nil {
		return nil, nil, err
	}
	patterns = append(patterns, ld.extraPatterns...)
	cfg := &packages.Config{Mode: packages.LoadAllSyntax, Dir: repoDir, Env: goEnv, Overlay: map[string][]byte{}}
	for v, real := range ld.overlay {
		b, err := os.ReadFile(real)
		if err != nil {
			return nil, nil, err
		}
		cfg.Overlay[v] = b
	}
	pkgs, err := packages.Load(cfg, patterns...)
	if err != nil {
		return nil, nil, err
	}
	var errs []string
	packages.Visit(pkgs, nil, func(p *packages.Package) {
		for _, e := range p.Errors {
			errs = append(errs, e.Error())
		}
	})
	if len(errs) > 0 {
		if len(errs) > 10 {
			errs = errs[:10]
		}
		return nil, nil, fmt.Errorf("type errors:\n  %s", strings.Join(errs, "\n  "))
	}
	prog, _ := ssautil.AllPackages(pkgs, ssa.InstantiateGenerics)
	prog.Build()
	return prog, pkgs, nil
}

type nativeOut struct {
	status string
	line   string
}

var caseLine = regexp.MustCompile(`^VERIF-CASE (\d+) (\w+) (.*)$`)

// native runs cases against the natively compiled package (with the same harness files).
func (ld *loader) native(pkgs []*packages.Package, run Run, cases []sym.Case) ([]nativeOut, error) {
	for i := range cases {
		cases[i].Entry = run.Entry
	}
	dir := ld.pkgDirs[run.Pkg]
	name := ld.pkgName[run.Pkg]
	tmpl, err := os.ReadFile(filepath.Join(verifDir, "harness", "api", "zz_verif_replay_test.go"))
	if err != nil {
		return nil, err
	}
	src := strings.Replace(string(tmpl), "package PKGNAME", "package "+name, 1)
	src = strings.Replace(src, "ENTRIES", fmt.Sprintf("%q: %s,", run.Entry, run.Entry), 1)
	testPath := filepath.Join(ld.scratch, "replay_"+run.Name+"_test.go")
	os.WriteFile(testPath, []byte(src), 0o644)
	casesPath := filepath.Join(ld.scratch, "cases_"+run.Name+".json")
	writeJSON(casesPath, cases)
	var cmd *exec.Cmd
	if _, statErr := os.Stat(dir); statErr != nil {
		// the package exists only as an overlay (regenerated code): `go test -overlay` cannot
		// enter a directory that is not on disk, so build it as a scratch module that
		// replaces github.com/a-h/templ by /repo
		mdir := filepath.Join(ld.scratch, "native_"+run.Name)
		os.RemoveAll(mdir)
		os.MkdirAll(mdir, 0o755)
		for v, real := range ld.overlay {
			if filepath.Dir(v) == dir {
				b, _ := os.ReadFile(real)
				os.WriteFile(filepath.Join(mdir, filepath.Base(v)), b, 0o644)
			}
		}
		b, _ := os.ReadFile(testPath)
		os.WriteFile(filepath.Join(mdir, "zz_verif_replay_test.go"), b, 0o644)
		gomod, _ := os.ReadFile(filepath.Join(repoDir, "go.mod"))
		var req []string
		inReq := false
		for _, line := range strings.Split(string(gomod), "\n") {
			t := strings.TrimSpace(line)
			switch {
			case strings.HasPrefix(t, "require ("):
				inReq = true
			case inReq && t == ")":
				inReq = false
			case inReq && t != "":
				req = append(req, "\t"+t)
			case strings.HasPrefix(t, "require "):
				req = append(req, "\t"+strings.TrimPrefix(t, "require "))
			}
		}
		mod := "module zzverifnative\n\ngo 1.23\n\nrequire (\n\tgithub.com/a-h/templ v0.0.0\n" + strings.Join(req, "\n") + "\n)\n\nreplace github.com/a-h/templ => /repo\n"
		os.WriteFile(filepath.Join(mdir, "go.mod"), []byte(mod), 0o644)
		sum, _ := os.ReadFile(filepath.Join(repoDir, "go.sum"))
		os.WriteFile(filepath.Join(mdir, "go.sum"), sum, 0o644)
		cmd = exec.Command("go", "test", "-v", "-vet=off", "-count=1", "-run", "^TestVerifReplay$", "-timeout", "300s", ".")
		cmd.Dir = mdir
	} else {
		ov := map[string]string{}
		for v, real := range ld.overlay {
			ov[v] = real
		}
		ov[filepath.Join(dir, "zz_verif_replay_test.go")] = testPath
		ovPath := filepath.Join(ld.scratch, "overlay_"+run.Name+".json")
		writeJSON(ovPath, map[string]interface{}{"Replace": ov})
		count := "-count=1"
		if run.Schedule && len(cases) > 0 && cases[0].End != "ok" {
			count = "-count=40" // a schedule cannot be forced natively: repeat counterexample replays
		}
		cmd = exec.Command("go", "test", "-v", "-vet=off", count, "-run", "^TestVerifReplay$", "-overlay", ovPath, "-timeout", "300s", run.Pkg)
		cmd.Dir = repoDir
	}
	cmd.Env = append(goEnv, "VERIF_CASES="+casesPath)
	out, err := cmd.CombinedOutput()
	outs := make([]nativeOut, len(cases))
	got := 0
	for _, line := range strings.Split(string(out), "\n") {
		if m := caseLine.FindStringSubmatch(strings.TrimSpace(line)); m != nil {
			i, _ := strconv.Atoi(m[1])
			if i < len(outs) {
				if outs[i].status == "" {
					got++
				}
				if run.Schedule && outs[i].status == "MATCH" && cases[i].End != "ok" {
					continue // an earlier repetition already reproduced the violation
				}
				if run.Schedule && cases[i].End == "ok" && outs[i].status == "MISMATCH" {
					continue // keep the first disagreement
				}
				outs[i] = nativeOut{status: m[2], line: m[3]}
			}
		}
	}
	if run.Schedule && got != len(cases) {
		// the process died: a panic in another goroutine reproduces a predicted crash
		for i := range cases {
			if outs[i].status == "" && strings.Contains(string(out), "panic: ") {
				for _, known := range []string{"send on closed channel", "close of closed channel", "all goroutines are asleep"} {
					if strings.Contains(string(out), known) && strings.Contains(cases[i].Msg, known) {
						outs[i] = nativeOut{status: "MATCH", line: "native process crashed with: " + known}
						got++
					}
				}
			}
		}
	}
	if got != len(cases) {
		tail := string(out)
		if len(tail) > 1500 {
			tail = tail[len(tail)-1500:]
		}
		return nil, fmt.Errorf("native test produced %d/%d case lines (err=%v): %s", got, len(cases), err, tail)
	}
	return outs, nil
}

func doReplay(spec *Spec, hdir, scratch, path string) int {
	var rf struct {
		Property string   `json:"property"`
		Run      string   `json:"run"`
		Case     sym.Case `json:"case"`
		Message  string   `json:"message"`
		Kind     string   `json:"kind"`
	}
	if err := readJSON(path, &rf); err != nil {
		fmt.Println("cannot read replay file:", err)
		return 2
	}
	if rf.Kind == "generate" {
		ld := newLoader(spec, hdir, scratch)
		if err := ld.regenerate(); err != nil && strings.Contains(err.Error(), "source formatting error") {
			fmt.Printf("replay %s: %v\nVIOLATION property=%s replay=%s\n", path, err, rf.Property, path)
			return 1
		}
		fmt.Println("the corpus regenerates on the current tree")
		return 0
	}
	if rf.Kind == "compile" {
		ld := newLoader(spec, hdir, scratch)
		if len(spec.Gen) > 0 {
			if err := ld.regenerate(); err != nil {
				fmt.Println("regeneration failed:", err)
				return 2
			}
		}
		if spec.GenRepoTests {
			if err := ld.regenerateRepoTests(); err != nil {
				fmt.Println("regeneration failed:", err)
				return 2
			}
		}
		if _, _, err := ld.load(""); err != nil && strings.Contains(err.Error(), "_templ.go") {
			fmt.Printf("replay %s: regenerated code does not compile: %v\nVIOLATION property=%s replay=%s\n", path, err, rf.Property, path)
			return 1
		}
		fmt.Println("the regenerated code compiles on the current tree")
		return 0
	}
	ld := newLoader(spec, hdir, scratch)
	if len(spec.Gen) > 0 {
		if err := ld.regenerate(); err != nil {
			fmt.Println("regeneration failed:", err)
			return 2
		}
	}
	for _, run := range spec.Runs {
		if run.Name != rf.Run {
			continue
		}
		// populate overlay without a full load
		one := *spec
		one.Runs = []Run{run}
		ld.spec = &one
		if _, err := ld.prepareOverlay(""); err != nil {
			fmt.Println(err)
			return 2
		}
		outs, err := ld.native(nil, run, []sym.Case{rf.Case})
		if err != nil {
			fmt.Println("native replay failed:", err)
			return 2
		}
		fmt.Printf("replay %s: %s\n", path, outs[0].line)
		if outs[0].status == "MATCH" {
			fmt.Printf("VIOLATION property=%s replay=%s\n", rf.Property, path)
			return 1
		}
		fmt.Println("the recorded violation does not reproduce on the current tree")
		return 0
	}
	fmt.Println("no such run:", rf.Run)
	return 2
}

// prepareOverlay maps every harness file of the selected runs (and the API file) into the
// package directory it belongs to; "package PKGNAME" is replaced by the package's real name.
func (ld *loader) prepareOverlay(only string) ([]string, error) {
	var patterns []string
	seenPkg := map[string]bool{}
	for _, run := range ld.spec.Runs {
		if only != "" && run.Name != only {
			continue
		}
		dir := pkgDirOf(run.Pkg)
		ld.pkgDirs[run.Pkg] = dir
		name := ld.pkgName[run.Pkg]
		if name == "" {
			if ents, err := os.ReadDir(dir); err == nil {
				for _, e := range ents {
					if strings.HasSuffix(e.Name(), ".go") && !strings.HasSuffix(e.Name(), "_test.go") {
						b, _ := os.ReadFile(filepath.Join(dir, e.Name()))
						if m := pkgClause.FindSubmatch(b); m != nil {
							name = string(m[1])
							break
						}
					}
				}
			}
		}
		if name == "" {
			for _, f := range run.Files {
				b, _ := os.ReadFile(filepath.Join(ld.hdir, f))
				if m := pkgClause.FindSubmatch(b); m != nil && string(m[1]) != "PKGNAME" {
					name = string(m[1])
					break
				}
			}
		}
		if name == "" {
			return nil, fmt.Errorf("cannot determine package name of %s", run.Pkg)
		}
		ld.pkgName[run.Pkg] = name
		flat := strings.ReplaceAll(run.Pkg, "/", "_")
		os.MkdirAll(filepath.Join(ld.scratch, flat), 0o755)
		files := append([]string{"../api/zz_verif_api.go"}, run.Files...)
		for _, f := range files {
			b, err := os.ReadFile(filepath.Join(ld.hdir, f))
			if err != nil {
				return nil, err
			}
			real := filepath.Join(ld.scratch, flat, filepath.Base(f))
			os.WriteFile(real, []byte(strings.Replace(string(b), "package PKGNAME", "package "+name, 1)), 0o644)
			ld.overlay[filepath.Join(dir, filepath.Base(f))] = real
		}
		if !seenPkg[run.Pkg] {
			seenPkg[run.Pkg] = true
			patterns = append(patterns, run.Pkg)
		}
		for xp, xfiles := range run.Extra {
			xdir := pkgDirOf(xp)
			xname := ""
			if ents, err := os.ReadDir(xdir); err == nil {
				for _, e := range ents {
					if strings.HasSuffix(e.Name(), ".go") && !strings.HasSuffix(e.Name(), "_test.go") {
						b, _ := os.ReadFile(filepath.Join(xdir, e.Name()))
						if m := pkgClause.FindSubmatch(b); m != nil {
							xname = string(m[1])
							break
						}
					}
				}
			}
			xflat := strings.ReplaceAll(xp, "/", "_")
			os.MkdirAll(filepath.Join(ld.scratch, xflat), 0o755)
			for _, f := range xfiles {
				b, err := os.ReadFile(filepath.Join(ld.hdir, f))
				if err != nil {
					return nil, err
				}
				real := filepath.Join(ld.scratch, xflat, filepath.Base(f))
				os.WriteFile(real, []byte(strings.Replace(string(b), "package PKGNAME", "package "+xname, 1)), 0o644)
				ld.overlay[filepath.Join(xdir, filepath.Base(f))] = real
			}
		}
	}
	return patterns, nil
}

// regenerate is filled in by gen.go
