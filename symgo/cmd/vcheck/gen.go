package main

import (
	"fmt"
	"os"
	"os/exec"
	"path/filepath"
	"strings"
)

// regenerate runs the current tree's `templ generate` on the property's template sources and
// maps the generated files into virtual package directories under /repo.
func (ld *loader) regenerate() error {
	for _, g := range ld.spec.Gen {
		base := filepath.Base(g.Dir)
		work := filepath.Join(ld.scratch, "gen", base)
		if err := os.MkdirAll(work, 0o755); err != nil {
			return err
		}
		pkgName := ""
		for _, t := range g.Templates {
			b, err := os.ReadFile(filepath.Join(ld.hdir, t))
			if err != nil {
				return err
			}
			if m := pkgClause.FindSubmatch(b); m != nil && pkgName == "" {
				pkgName = string(m[1])
			}
			if err := os.WriteFile(filepath.Join(work, filepath.Base(t)), b, 0o644); err != nil {
				return err
			}
		}
		cmd := exec.Command("go", "run", "./cmd/templ", "generate", "-path", work)
		cmd.Dir = repoDir
		cmd.Env = append(goEnv, "TEMPL_DEV_MODE=")
		out, err := cmd.CombinedOutput()
		if err != nil {
			tail := string(out)
			if len(tail) > 2000 {
				tail = tail[len(tail)-2000:]
			}
			return fmt.Errorf("templ generate failed on %s: %v\n%s", g.Dir, err, tail)
		}
		ents, _ := os.ReadDir(work)
		n := 0
		for _, e := range ents {
			if strings.HasSuffix(e.Name(), "_templ.go") {
				ld.overlay[filepath.Join(repoDir, g.Dir, e.Name())] = filepath.Join(work, e.Name())
				n++
			}
		}
		if n != len(g.Templates) {
			return fmt.Errorf("templ generate produced %d files for %d templates in %s:\n%s", n, len(g.Templates), g.Dir, out)
		}
		for _, x := range g.Extra {
			b, err := os.ReadFile(filepath.Join(ld.hdir, x))
			if err != nil {
				return err
			}
			real := filepath.Join(work, filepath.Base(x))
			os.WriteFile(real, []byte(strings.Replace(string(b), "package PKGNAME", "package "+pkgName, 1)), 0o644)
			ld.overlay[filepath.Join(repoDir, g.Dir, filepath.Base(x))] = real
		}
		ld.pkgName[modPath+"/"+g.Dir] = pkgName
		ld.genWork = append(ld.genWork, work)
	}
	return nil
}

// regenerateRepoTests re-runs the generator on every generator/test-*/ *.templ of the repository
// and overlays the result over the checked-in *_templ.go, so that loading those packages
// type-checks what the current generator emits ("generated Go code compiles").
func (ld *loader) regenerateRepoTests() error {
	dirs, _ := filepath.Glob(filepath.Join(repoDir, "generator", "test-*"))
	root := filepath.Join(ld.scratch, "gen", "repo-tests")
	type job struct {
		dir, work string
		tmpls     []string
	}
	var jobs []job
	for _, d := range dirs {
		tmpls, _ := filepath.Glob(filepath.Join(d, "*.templ"))
		if len(tmpls) == 0 {
			continue
		}
		work := filepath.Join(root, filepath.Base(d))
		os.MkdirAll(work, 0o755)
		for _, t := range tmpls {
			b, err := os.ReadFile(t)
			if err != nil {
				return err
			}
			os.WriteFile(filepath.Join(work, filepath.Base(t)), b, 0o644)
		}
		jobs = append(jobs, job{d, work, tmpls})
	}
	cmd := exec.Command("go", "run", "./cmd/templ", "generate", "-path", root)
	cmd.Dir = repoDir
	cmd.Env = append(goEnv, "TEMPL_DEV_MODE=")
	if out, err := cmd.CombinedOutput(); err != nil {
		return fmt.Errorf("templ generate failed on the repository's generator tests: %v\n%s", err, out)
	}
	for _, j := range jobs {
		for _, t := range j.tmpls {
			gen := strings.TrimSuffix(filepath.Base(t), ".templ") + "_templ.go"
			if _, err := os.Stat(filepath.Join(j.work, gen)); err != nil {
				return fmt.Errorf("no generated file for %s", t)
			}
			ld.overlay[filepath.Join(j.dir, gen)] = filepath.Join(j.work, gen)
		}
		ld.extraPatterns = append(ld.extraPatterns, modPath+"/generator/"+filepath.Base(j.dir))
		ld.programs++
	}
	return nil
}
