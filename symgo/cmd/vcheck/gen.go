package main

import "fmt"

func (ld *loader) regenerate() error {
	return fmt.Errorf("not implemented")
}
