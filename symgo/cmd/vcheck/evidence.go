package main

import (
	"fmt"
	"path/filepath"
	"sort"
	"strings"
	"time"
)

func writeEvidence(prop, tier string, seed int64, spec *Spec, results []*runResult, loadTime, wall time.Duration, nviol int, noNative bool) {
	level := spec.Level
	if level == "" {
		level = "model_checking"
	}
	var paths, nontrivial, queries, sat, unsat, unknown, validated, programs int
	var decisions, steps int64
	var solverS float64
	var samples []interface{}
	var runs []map[string]interface{}
	funcs := map[string]int64{}
	intr := map[string]int64{}
	var assumptions []string
	assumptions = append(assumptions, spec.Notes...)
	known := []string{}
	inconclusive := []string{}
	disagreements := 0
	for _, r := range results {
		ri := map[string]interface{}{"name": r.run.Name, "entry": r.run.Entry, "pkg": r.run.Pkg, "params": r.params, "bounds": r.run.Bounds}
		if r.err != "" {
			ri["error"] = r.err
			runs = append(runs, ri)
			continue
		}
		rep := r.rep
		paths += rep.Paths
		nontrivial += rep.Nontrivial
		queries += rep.Queries
		sat += rep.Sat
		unsat += rep.Unsat
		unknown += rep.Unknown
		decisions += rep.Decisions
		steps += rep.Steps
		solverS += rep.SolveTime.Seconds()
		validated += r.validated
		if r.run.Programs > 0 {
			programs += r.run.Programs
		}
		disagreements += rep.Paths
		ri["paths"] = rep.Paths
		ri["paths_with_symbolic_decisions"] = rep.Nontrivial
		ri["max_decisions_on_a_path"] = rep.MaxDecisions
		ri["path_endings"] = rep.Ended
		ri["solver_queries"] = map[string]int{"total": rep.Queries, "sat": rep.Sat, "unsat": rep.Unsat, "unknown": rep.Unknown, "error_lines": rep.Errors}
		ri["solver_time_s"] = round(rep.SolveTime.Seconds())
		ri["wall_s"] = round(rep.Wall.Seconds())
		ri["cover_points"] = rep.Covers
		ri["assumes_executed"] = rep.Assumes
		ri["interpreted_ssa_instructions"] = rep.Steps
		ri["cross_solver"] = map[string]int{"queries_rechecked_by_z3new_and_cvc5": rep.CrossChecked, "agreed": rep.CrossAgreed, "undecided_by_the_other_solver": rep.CrossUndecided}
		ri["native_cases_validated"] = r.validated
		ri["native_mismatches"] = r.mismatches
		ri["inconclusive"] = rep.Inconclusive
		var vs []map[string]interface{}
		for _, v := range r.violations {
			vs = append(vs, map[string]interface{}{"assertion": v.Msg, "inputs": v.Inputs, "replay": v.ReplayPath, "reproduced_natively": v.Reproduced, "native": v.Native})
		}
		ri["violations"] = vs
		var ks []string
		for id, d := range r.known {
			ks = append(ks, id+": "+d)
			known = append(known, id)
		}
		sort.Strings(ks)
		ri["known_findings_hit"] = ks
		for _, s := range rep.Inconclusive {
			inconclusive = append(inconclusive, r.run.Name+": "+s)
		}
		for k, v := range rep.FuncHits {
			funcs[k] += v
		}
		for k, v := range rep.IntrHits {
			intr[k] += v
		}
		for i, s := range rep.Samples {
			if i < 2 {
				samples = append(samples, map[string]interface{}{"run": r.run.Name, "path_condition": s})
			}
		}
		for i, c := range rep.Cases {
			if i < 2 {
				samples = append(samples, map[string]interface{}{"run": r.run.Name, "inputs_under_witness_model": showCase(c), "decisions": c.Path, "observations": c.Obs})
			}
		}
		runs = append(runs, ri)
	}
	type kv struct {
		k string
		v int64
	}
	var fl []kv
	for k, v := range funcs {
		fl = append(fl, kv{k, v})
	}
	sort.Slice(fl, func(i, j int) bool { return fl[i].v > fl[j].v })
	var encoded []string
	repoFuncs := 0
	for _, f := range fl {
		if strings.Contains(f.k, "github.com/a-h/") {
			repoFuncs++
		}
		if len(encoded) < 60 {
			encoded = append(encoded, fmt.Sprintf("%s ×%d", f.k, f.v))
		}
	}
	var il []string
	for k, v := range intr {
		il = append(il, fmt.Sprintf("%s ×%d", k, v))
	}
	sort.Strings(il)
	if len(samples) == 0 {
		samples = append(samples, "no path sampled")
	}
	if paths < 1 {
		paths = 1
	}
	cov := map[string]interface{}{
		"states":                        paths,
		"transitions":                   max64(decisions, 1),
		"traces_validated_against_impl": validated,
		"samples":                       samples,
		"evaluations":                   paths,
		"distinct_nontrivial":           nontrivial,
		"rule":                          "one evaluation = one feasible path of the harness through the real code, identified by its decision vector (symbolic branch outcomes and concretisations); paths are distinct by construction (each is a different decision vector) and non-trivial when at least one decision depended on a symbolic input; each path stands for every input satisfying its path condition, and every assertion on it is discharged by an SMT query (unsat of path-condition ∧ ¬assertion)",
		"explanation":                   "bounded symbolic execution of the real Go code from SSA (symgo) with z3; see runs[] for bounds, queries and cover points; unknown/timeout/unsupported/budget exhaustion make the check exit 2, never 0",
		"exhaustive":                    len(inconclusive) == 0,
		"runs":                          runs,
		"solver":                        "z3 4.8.12 (z3 -in, one process per worker, push/pop)",
		"solver_queries":                map[string]int{"total": queries, "sat": sat, "unsat": unsat, "unknown": unknown},
		"solver_time_s":                 round(solverS),
		"functions_encoded":             encoded,
		"functions_encoded_total":       len(fl),
		"functions_encoded_from_repo":   repoFuncs,
		"intrinsics_and_models_hit":     il,
		"load_and_ssa_build_s":          round(loadTime.Seconds()),
		"known_findings_hit":            known,
		"inconclusive":                  inconclusive,
		"native_validation_skipped":     noNative,
	}
	if level == "translation_validation" {
		programs += extraPrograms
		if programs < 1 {
			programs = 1
		}
		cov["programs_type_checked_only"] = extraPrograms
		cov["programs"] = programs
		cov["disagreements_checked"] = disagreements
	}
	ev := map[string]interface{}{
		"property_id": prop,
		"tier":        tier,
		"seed":        seed,
		"level":       level,
		"coverage":    cov,
		"assumptions": assumptions,
		"wall_s":      round(wall.Seconds()),
		"violations":  nviol,
	}
	writeJSON(filepath.Join(verifDir, "evidence", prop+".json"), ev)
}

func round(f float64) float64 { return float64(int64(f*1000)) / 1000 }

func max64(a, b int64) int64 {
	if a > b {
		return a
	}
	return b
}

func writeCompileEvidence(prop, tier string, seed int64, spec *Spec, errs string, wall time.Duration) {
	level := spec.Level
	if level == "" {
		level = "model_checking"
	}
	ev := map[string]interface{}{
		"property_id": prop, "tier": tier, "seed": seed, "level": level,
		"coverage": map[string]interface{}{
			"evaluations": 1, "distinct_nontrivial": 0, "programs": 1, "disagreements_checked": 1,
			"states": 1, "transitions": 1, "traces_validated_against_impl": 0,
			"samples":     []string{errs},
			"explanation": "the code emitted by the current generator for the corpus does not type-check; no path was explored",
		},
		"wall_s": round(wall.Seconds()), "violations": 1,
	}
	writeJSON(filepath.Join(verifDir, "evidence", prop+".json"), ev)
}
