package sym

import (
	"fmt"
	"strings"
)

// Op is a term operator.
type Op uint8

const (
	OpConst Op = iota // bit-vector constant (w>0) or bool constant (w==0)
	OpVar
	OpNot
	OpAnd
	OpOr
	OpIte
	OpEq
	OpAdd
	OpSub
	OpMul
	OpUDiv
	OpURem
	OpSDiv
	OpSRem
	OpBAnd
	OpBOr
	OpBXor
	OpBNot
	OpNeg
	OpShl
	OpLShr
	OpAShr
	OpUlt
	OpUle
	OpSlt
	OpSle
	OpZExt
	OpSExt
	OpExtract // args[0], hi=k>>8, lo=k&0xff
)

var opNames = [...]string{
	OpNot: "not", OpAnd: "and", OpOr: "or", OpIte: "ite", OpEq: "=",
	OpAdd: "bvadd", OpSub: "bvsub", OpMul: "bvmul", OpUDiv: "bvudiv", OpURem: "bvurem",
	OpSDiv: "bvsdiv", OpSRem: "bvsrem", OpBAnd: "bvand", OpBOr: "bvor", OpBXor: "bvxor",
	OpBNot: "bvnot", OpNeg: "bvneg", OpShl: "bvshl", OpLShr: "bvlshr", OpAShr: "bvashr",
	OpUlt: "bvult", OpUle: "bvule", OpSlt: "bvslt", OpSle: "bvsle",
}

// Term is a hash-consed SMT term. W==0 means Bool, otherwise a bit-vector of W bits (W<=64).
type Term struct {
	ID   int
	Op   Op
	W    int
	Args []*Term
	K    uint64 // constant value / extract bounds / extension amount
	Name string // variable name
}

func (t *Term) IsConst() bool { return t.Op == OpConst }
func (t *Term) IsBool() bool  { return t.W == 0 }

type termKey struct {
	op      Op
	w       int
	k       uint64
	name    string
	a, b, c int
}

// Terms is a hash-consing table. Not safe for concurrent use: one per worker.
type Terms struct {
	tab      map[termKey]*Term
	next     int
	True     *Term
	False    *Term
	small    [65][]*Term // cached small constants per width
	maxMemo  map[int]uint64
	hashMemo map[int]uint64
	Vars     []*Term
}

func NewTerms() *Terms {
	ts := &Terms{tab: map[termKey]*Term{}, maxMemo: map[int]uint64{}}
	ts.True = ts.mk(OpConst, 0, 1, "", nil)
	ts.False = ts.mk(OpConst, 0, 0, "", nil)
	return ts
}

func (ts *Terms) mk(op Op, w int, k uint64, name string, args []*Term) *Term {
	key := termKey{op: op, w: w, k: k, name: name, a: -1, b: -1, c: -1}
	switch len(args) {
	case 3:
		key.c = args[2].ID
		fallthrough
	case 2:
		key.b = args[1].ID
		fallthrough
	case 1:
		key.a = args[0].ID
	}
	if t, ok := ts.tab[key]; ok {
		return t
	}
	t := &Term{ID: ts.next, Op: op, W: w, K: k, Name: name, Args: args}
	ts.next++
	ts.tab[key] = t
	return t
}

func mask(w int) uint64 {
	if w >= 64 {
		return ^uint64(0)
	}
	return (uint64(1) << uint(w)) - 1
}

func sext(v uint64, w int) int64 {
	if w >= 64 {
		return int64(v)
	}
	sh := uint(64 - w)
	return int64(v<<sh) >> sh
}

// Const returns the bit-vector constant v (truncated) of width w.
func (ts *Terms) Const(w int, v uint64) *Term {
	v &= mask(w)
	if v < 512 {
		c := ts.small[w]
		if c == nil {
			c = make([]*Term, 512)
			ts.small[w] = c
		}
		if c[v] == nil {
			c[v] = ts.mk(OpConst, w, v, "", nil)
		}
		return c[v]
	}
	return ts.mk(OpConst, w, v, "", nil)
}

// StructHash is a hash of the term's structure, independent of the table it lives in.
func (ts *Terms) StructHash(t *Term) uint64 {
	if ts.hashMemo == nil {
		ts.hashMemo = map[int]uint64{}
	}
	if h, ok := ts.hashMemo[t.ID]; ok {
		return h
	}
	h := uint64(14695981039346656037)
	mix := func(x uint64) {
		h ^= x
		h *= 1099511628211
	}
	mix(uint64(t.Op))
	mix(uint64(t.W))
	mix(t.K)
	for i := 0; i < len(t.Name); i++ {
		mix(uint64(t.Name[i]))
	}
	for _, a := range t.Args {
		mix(ts.StructHash(a))
	}
	ts.hashMemo[t.ID] = h
	return h
}

func (ts *Terms) Bool(b bool) *Term {
	if b {
		return ts.True
	}
	return ts.False
}

// Var declares (or returns) a variable.
func (ts *Terms) Var(name string, w int) *Term {
	key := termKey{op: OpVar, w: w, name: name, a: -1, b: -1, c: -1}
	if t, ok := ts.tab[key]; ok {
		return t
	}
	t := ts.mk(OpVar, w, 0, name, nil)
	ts.Vars = append(ts.Vars, t)
	return t
}

func (ts *Terms) Not(a *Term) *Term {
	if a.IsConst() {
		return ts.Bool(a.K == 0)
	}
	if a.Op == OpNot {
		return a.Args[0]
	}
	return ts.mk(OpNot, 0, 0, "", []*Term{a})
}

func (ts *Terms) And(a, b *Term) *Term {
	if a.IsConst() {
		if a.K == 0 {
			return ts.False
		}
		return b
	}
	if b.IsConst() {
		if b.K == 0 {
			return ts.False
		}
		return a
	}
	if a == b {
		return a
	}
	return ts.mk(OpAnd, 0, 0, "", []*Term{a, b})
}

func (ts *Terms) Or(a, b *Term) *Term {
	if a.IsConst() {
		if a.K != 0 {
			return ts.True
		}
		return b
	}
	if b.IsConst() {
		if b.K != 0 {
			return ts.True
		}
		return a
	}
	if a == b {
		return a
	}
	return ts.mk(OpOr, 0, 0, "", []*Term{a, b})
}

func (ts *Terms) Ite(c, a, b *Term) *Term {
	if c.IsConst() {
		if c.K != 0 {
			return a
		}
		return b
	}
	if a == b {
		return a
	}
	if a.W == 0 && a.IsConst() && b.IsConst() {
		if a.K != 0 && b.K == 0 {
			return c
		}
		if a.K == 0 && b.K != 0 {
			return ts.Not(c)
		}
	}
	return ts.mk(OpIte, a.W, 0, "", []*Term{c, a, b})
}

func (ts *Terms) Eq(a, b *Term) *Term {
	if a.W != b.W {
		panic(fmt.Sprintf("Eq width mismatch %d %d", a.W, b.W))
	}
	if a == b {
		return ts.True
	}
	if a.IsConst() && b.IsConst() {
		return ts.Bool(a.K == b.K)
	}
	if a.W == 0 {
		// bool equality
		if a.IsConst() {
			if a.K != 0 {
				return b
			}
			return ts.Not(b)
		}
		if b.IsConst() {
			if b.K != 0 {
				return a
			}
			return ts.Not(a)
		}
	}
	// Eq(ite(c, k1, k2), k) with constants: push through.
	if b.IsConst() && a.Op == OpIte && a.Args[1].IsConst() && a.Args[2].IsConst() {
		return ts.Ite(a.Args[0], ts.Bool(a.Args[1].K == b.K), ts.Bool(a.Args[2].K == b.K))
	}
	if a.IsConst() && b.Op == OpIte && b.Args[1].IsConst() && b.Args[2].IsConst() {
		return ts.Eq(b, a)
	}
	// zero-extension of a narrower term compared with a constant.
	if b.IsConst() && a.Op == OpZExt {
		in := a.Args[0]
		if b.K > mask(in.W) {
			return ts.False
		}
		return ts.Eq(in, ts.Const(in.W, b.K))
	}
	if a.IsConst() && b.Op == OpZExt {
		return ts.Eq(b, a)
	}
	if a.ID > b.ID {
		a, b = b, a
	}
	return ts.mk(OpEq, 0, 0, "", []*Term{a, b})
}

// MaxVal returns a conservative unsigned upper bound of a bit-vector term.
func (ts *Terms) MaxVal(t *Term) uint64 {
	if t.W == 0 {
		return 1
	}
	if v, ok := ts.maxMemo[t.ID]; ok {
		return v
	}
	m := mask(t.W)
	r := m
	switch t.Op {
	case OpConst:
		r = t.K
	case OpZExt:
		r = ts.MaxVal(t.Args[0])
	case OpExtract:
		if v := ts.MaxVal(t.Args[0]); v < r {
			r = v
		}
	case OpIte:
		a, b := ts.MaxVal(t.Args[1]), ts.MaxVal(t.Args[2])
		if a > b {
			r = a
		} else {
			r = b
		}
	case OpAdd:
		a, b := ts.MaxVal(t.Args[0]), ts.MaxVal(t.Args[1])
		if a+b >= a && a+b <= m {
			r = a + b
		}
	case OpMul:
		a, b := ts.MaxVal(t.Args[0]), ts.MaxVal(t.Args[1])
		if a == 0 || b == 0 {
			r = 0
		} else if a <= m/b {
			r = a * b
		}
	case OpBAnd:
		a, b := ts.MaxVal(t.Args[0]), ts.MaxVal(t.Args[1])
		if a < b {
			r = a
		} else {
			r = b
		}
	case OpBOr, OpBXor:
		a, b := ts.MaxVal(t.Args[0]), ts.MaxVal(t.Args[1])
		if a < b {
			a = b
		}
		// smallest all-ones value >= a
		x := uint64(0)
		for x < a {
			x = x<<1 | 1
		}
		if x < r {
			r = x
		}
	case OpLShr:
		if t.Args[1].IsConst() && t.Args[1].K < 64 {
			r = ts.MaxVal(t.Args[0]) >> t.Args[1].K
		} else {
			r = ts.MaxVal(t.Args[0])
		}
	case OpShl:
		if t.Args[1].IsConst() && t.Args[1].K < 64 {
			a := ts.MaxVal(t.Args[0])
			if a <= m>>t.Args[1].K {
				r = a << t.Args[1].K
			}
		}
	case OpURem:
		if b := ts.MaxVal(t.Args[1]); t.Args[1].IsConst() && b > 0 {
			r = b - 1
		}
	case OpUDiv:
		r = ts.MaxVal(t.Args[0])
	}
	ts.maxMemo[t.ID] = r
	return r
}

// Bin builds a binary bit-vector operation with constant folding.
func (ts *Terms) Bin(op Op, a, b *Term) *Term {
	if a.W != b.W {
		panic(fmt.Sprintf("Bin %v width mismatch %d %d", opNames[op], a.W, b.W))
	}
	w := a.W
	if a.IsConst() && b.IsConst() {
		if v, ok := foldBin(op, w, a.K, b.K); ok {
			if op >= OpUlt && op <= OpSle {
				return ts.Bool(v != 0)
			}
			return ts.Const(w, v)
		}
	}
	rw := w
	switch op {
	case OpUlt, OpUle, OpSlt, OpSle:
		rw = 0
		if a == b {
			return ts.Bool(op == OpUle || op == OpSle)
		}
		if b.IsConst() && (op == OpUlt || op == OpUle) {
			if mv := ts.MaxVal(a); mv < b.K || (op == OpUle && mv == b.K) {
				return ts.True
			}
		}
		if a.IsConst() && (op == OpUlt || op == OpUle) {
			if mv := ts.MaxVal(b); (op == OpUlt && a.K >= mv) || a.K > mv {
				return ts.False
			}
		}
		// zext(x) <u const
		if b.IsConst() && a.Op == OpZExt {
			in := a.Args[0]
			if b.K > mask(in.W) {
				return ts.Bool(op == OpUlt || op == OpUle || ((op == OpSlt || op == OpSle) && sext(b.K, w) >= 0))
			}
			if op == OpUlt || op == OpUle || sext(b.K, w) >= 0 {
				nop := op
				if op == OpSlt {
					nop = OpUlt
				} else if op == OpSle {
					nop = OpUle
				}
				return ts.Bin(nop, in, ts.Const(in.W, b.K))
			}
		}
		if a.IsConst() && b.Op == OpZExt {
			in := b.Args[0]
			if a.K <= mask(in.W) && (op == OpUlt || op == OpUle || sext(a.K, w) >= 0) {
				nop := op
				if op == OpSlt {
					nop = OpUlt
				} else if op == OpSle {
					nop = OpUle
				}
				return ts.Bin(nop, ts.Const(in.W, a.K), in)
			}
		}
	case OpAdd:
		if a.IsConst() && a.K == 0 {
			return b
		}
		if b.IsConst() && b.K == 0 {
			return a
		}
	case OpSub:
		if b.IsConst() && b.K == 0 {
			return a
		}
		if a == b {
			return ts.Const(w, 0)
		}
	case OpMul:
		if a.IsConst() && a.K == 1 {
			return b
		}
		if b.IsConst() && b.K == 1 {
			return a
		}
		if (a.IsConst() && a.K == 0) || (b.IsConst() && b.K == 0) {
			return ts.Const(w, 0)
		}
	case OpBAnd:
		if a == b {
			return a
		}
		if a.IsConst() {
			a, b = b, a
		}
		if b.IsConst() {
			if b.K == 0 {
				return b
			}
			if b.K == mask(w) {
				return a
			}
		}
	case OpBOr:
		if a == b {
			return a
		}
		if a.IsConst() {
			a, b = b, a
		}
		if b.IsConst() {
			if b.K == 0 {
				return a
			}
			if b.K == mask(w) {
				return b
			}
		}
	case OpBXor:
		if a == b {
			return ts.Const(w, 0)
		}
		if b.IsConst() && b.K == 0 {
			return a
		}
		if a.IsConst() && a.K == 0 {
			return b
		}
	case OpShl, OpLShr, OpAShr:
		if b.IsConst() && b.K == 0 {
			return a
		}
	}
	return ts.mk(op, rw, 0, "", []*Term{a, b})
}

func foldBin(op Op, w int, x, y uint64) (uint64, bool) {
	m := mask(w)
	switch op {
	case OpAdd:
		return (x + y) & m, true
	case OpSub:
		return (x - y) & m, true
	case OpMul:
		return (x * y) & m, true
	case OpUDiv:
		if y == 0 {
			return m, true
		}
		return (x / y) & m, true
	case OpURem:
		if y == 0 {
			return x, true
		}
		return (x % y) & m, true
	case OpSDiv:
		if y == 0 {
			return 0, false
		}
		sx, sy := sext(x, w), sext(y, w)
		if sy == -1 {
			return uint64(-sx) & m, true
		}
		return uint64(sx/sy) & m, true
	case OpSRem:
		if y == 0 {
			return 0, false
		}
		sx, sy := sext(x, w), sext(y, w)
		if sy == -1 {
			return 0, true
		}
		return uint64(sx%sy) & m, true
	case OpBAnd:
		return x & y, true
	case OpBOr:
		return x | y, true
	case OpBXor:
		return x ^ y, true
	case OpShl:
		if y >= uint64(w) {
			return 0, true
		}
		return (x << y) & m, true
	case OpLShr:
		if y >= uint64(w) {
			return 0, true
		}
		return (x >> y) & m, true
	case OpAShr:
		sx := sext(x, w)
		if y >= uint64(w) {
			if sx < 0 {
				return m, true
			}
			return 0, true
		}
		return uint64(sx>>y) & m, true
	case OpUlt:
		return b2u(x < y), true
	case OpUle:
		return b2u(x <= y), true
	case OpSlt:
		return b2u(sext(x, w) < sext(y, w)), true
	case OpSle:
		return b2u(sext(x, w) <= sext(y, w)), true
	}
	return 0, false
}

func b2u(b bool) uint64 {
	if b {
		return 1
	}
	return 0
}

func (ts *Terms) BNot(a *Term) *Term {
	if a.IsConst() {
		return ts.Const(a.W, ^a.K)
	}
	return ts.mk(OpBNot, a.W, 0, "", []*Term{a})
}

func (ts *Terms) Neg(a *Term) *Term {
	if a.IsConst() {
		return ts.Const(a.W, -a.K)
	}
	return ts.mk(OpNeg, a.W, 0, "", []*Term{a})
}

// Resize converts a to width w, sign- or zero-extending, or truncating.
func (ts *Terms) Resize(a *Term, w int, signed bool) *Term {
	if a.W == w {
		return a
	}
	if a.W > w {
		if a.IsConst() {
			return ts.Const(w, a.K)
		}
		// extract of zext/sext of something not wider than w
		if (a.Op == OpZExt || a.Op == OpSExt) && a.Args[0].W <= w {
			return ts.Resize(a.Args[0], w, a.Op == OpSExt)
		}
		switch a.Op {
		case OpAdd, OpSub, OpMul, OpBAnd, OpBOr, OpBXor:
			return ts.Bin(a.Op, ts.Resize(a.Args[0], w, false), ts.Resize(a.Args[1], w, false))
		case OpIte:
			return ts.Ite(a.Args[0], ts.Resize(a.Args[1], w, false), ts.Resize(a.Args[2], w, false))
		case OpZExt, OpSExt:
			return ts.Resize(a.Args[0], w, false)
		}
		return ts.mk(OpExtract, w, uint64(w-1)<<8, "", []*Term{a})
	}
	if a.IsConst() {
		if signed {
			return ts.Const(w, uint64(sext(a.K, a.W)))
		}
		return ts.Const(w, a.K)
	}
	if signed {
		return ts.mk(OpSExt, w, uint64(w-a.W), "", []*Term{a})
	}
	if a.Op == OpZExt {
		return ts.Resize(a.Args[0], w, false)
	}
	return ts.mk(OpZExt, w, uint64(w-a.W), "", []*Term{a})
}

// Eval evaluates t under a model (variable name -> value). Missing variables are 0.
func Eval(t *Term, model map[string]uint64, memo map[int]uint64) uint64 {
	if t.Op == OpConst {
		return t.K
	}
	if v, ok := memo[t.ID]; ok {
		return v
	}
	var r uint64
	switch t.Op {
	case OpVar:
		r = model[t.Name] & maskOrBool(t.W)
	case OpNot:
		r = 1 - Eval(t.Args[0], model, memo)
	case OpAnd:
		r = Eval(t.Args[0], model, memo) & Eval(t.Args[1], model, memo)
	case OpOr:
		r = Eval(t.Args[0], model, memo) | Eval(t.Args[1], model, memo)
	case OpIte:
		if Eval(t.Args[0], model, memo) != 0 {
			r = Eval(t.Args[1], model, memo)
		} else {
			r = Eval(t.Args[2], model, memo)
		}
	case OpEq:
		r = b2u(Eval(t.Args[0], model, memo) == Eval(t.Args[1], model, memo))
	case OpBNot:
		r = ^Eval(t.Args[0], model, memo) & mask(t.W)
	case OpNeg:
		r = -Eval(t.Args[0], model, memo) & mask(t.W)
	case OpZExt:
		r = Eval(t.Args[0], model, memo)
	case OpSExt:
		r = uint64(sext(Eval(t.Args[0], model, memo), t.Args[0].W)) & mask(t.W)
	case OpExtract:
		r = Eval(t.Args[0], model, memo) & mask(t.W)
	default:
		x, y := Eval(t.Args[0], model, memo), Eval(t.Args[1], model, memo)
		w := t.Args[0].W
		v, ok := foldBin(t.Op, w, x, y)
		if !ok {
			// signed division by zero: SMT-LIB semantics
			if t.Op == OpSDiv {
				if sext(x, w) < 0 {
					v = 1
				} else {
					v = mask(w)
				}
			} else {
				v = x
			}
		}
		r = v
	}
	memo[t.ID] = r
	return r
}

func maskOrBool(w int) uint64 {
	if w == 0 {
		return 1
	}
	return mask(w)
}

func sortOf(w int) string {
	if w == 0 {
		return "Bool"
	}
	return fmt.Sprintf("(_ BitVec %d)", w)
}

func constLit(t *Term) string {
	if t.W == 0 {
		if t.K != 0 {
			return "true"
		}
		return "false"
	}
	if t.W%4 == 0 {
		return fmt.Sprintf("#x%0*x", t.W/4, t.K)
	}
	return fmt.Sprintf("#b%0*b", t.W, t.K)
}

// smtRef returns the text that refers to t, assuming its definition was emitted.
func smtRef(t *Term) string {
	switch t.Op {
	case OpConst:
		return constLit(t)
	case OpVar:
		return t.Name
	}
	return fmt.Sprintf("n%d", t.ID)
}

// smtDef returns the right-hand side defining a non-leaf term in terms of child refs.
func smtDef(t *Term) string {
	var sb strings.Builder
	switch t.Op {
	case OpZExt:
		fmt.Fprintf(&sb, "((_ zero_extend %d) %s)", t.K, smtRef(t.Args[0]))
	case OpSExt:
		fmt.Fprintf(&sb, "((_ sign_extend %d) %s)", t.K, smtRef(t.Args[0]))
	case OpExtract:
		fmt.Fprintf(&sb, "((_ extract %d %d) %s)", t.K>>8, t.K&0xff, smtRef(t.Args[0]))
	default:
		sb.WriteByte('(')
		sb.WriteString(opNames[t.Op])
		for _, a := range t.Args {
			sb.WriteByte(' ')
			sb.WriteString(smtRef(a))
		}
		sb.WriteByte(')')
	}
	return sb.String()
}

// String renders a term for humans, eliding sub-terms below a fixed depth.
func (t *Term) String() string { return t.str(4) }

func (t *Term) str(depth int) string {
	if depth == 0 && len(t.Args) > 0 {
		return fmt.Sprintf("n%d…", t.ID)
	}
	switch t.Op {
	case OpConst:
		if t.W == 0 {
			return constLit(t)
		}
		return fmt.Sprintf("%d:%d", t.K, t.W)
	case OpVar:
		return t.Name
	case OpZExt:
		return fmt.Sprintf("zx%d(%s)", t.W, t.Args[0].str(depth))
	case OpSExt:
		return fmt.Sprintf("sx%d(%s)", t.W, t.Args[0].str(depth))
	case OpExtract:
		return fmt.Sprintf("tr%d(%s)", t.W, t.Args[0].str(depth))
	}
	var parts []string
	for _, a := range t.Args {
		parts = append(parts, a.str(depth-1))
	}
	return "(" + opNames[t.Op] + " " + strings.Join(parts, " ") + ")"
}
