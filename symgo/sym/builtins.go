package sym

import (
	"fmt"
	"go/token"
	"go/types"
	"os"

	"golang.org/x/tools/go/ssa"
)

func (m *Machine) callBuiltin(caller *frame, pos token.Pos, fn *ssa.Builtin, args []value) value {
	switch fn.Name() {
	case "append":
		if len(args) == 1 {
			return args[0]
		}
		var src []value
		switch a := args[1].(type) {
		case Str: // append([]byte, string...)
			bs := m.strBytes(a)
			src = make([]value, len(bs))
			for i, b := range bs {
				src[i] = b
			}
		case []value:
			src = a
		}
		dst, _ := args[0].([]value)
		if len(src) == 0 {
			return dst
		}
		// copy elements (value semantics for aggregates)
		n := len(dst)
		if n+len(src) <= cap(dst) {
			out := dst[:n+len(src)]
			for i, e := range src {
				m.store(&out[n+i], e)
			}
			return out
		}
		newCap := 2 * cap(dst)
		if newCap < n+len(src) {
			newCap = n + len(src)
		}
		out := make([]value, n+len(src), newCap)
		copy(out, dst)
		for i, e := range src {
			out[n+i] = copyVal(e)
		}
		return out

	case "copy":
		dst := args[0].([]value)
		var src []value
		switch a := args[1].(type) {
		case Str:
			bs := m.strBytes(a)
			src = make([]value, len(bs))
			for i, b := range bs {
				src[i] = b
			}
		case []value:
			src = a
		}
		n := len(dst)
		if len(src) < n {
			n = len(src)
		}
		// handle overlap like the runtime's memmove
		tmp := make([]value, n)
		copy(tmp, src[:n])
		for i := 0; i < n; i++ {
			m.store(&dst[i], tmp[i])
		}
		return m.T.Const(64, uint64(n))

	case "len":
		switch a := args[0].(type) {
		case Str:
			return m.T.Const(64, uint64(a.Len()))
		case []value:
			return m.T.Const(64, uint64(len(a)))
		case array:
			return m.T.Const(64, uint64(len(a)))
		case *value:
			if a == nil {
				return m.T.Const(64, 0)
			}
			return m.T.Const(64, uint64(len((*a).(array))))
		case *Map:
			if a == nil {
				return m.T.Const(64, 0)
			}
			return m.T.Const(64, uint64(a.n))
		case *Chan:
			if a == nil {
				return m.T.Const(64, 0)
			}
			return m.T.Const(64, uint64(len(a.buf)))
		}
	case "cap":
		switch a := args[0].(type) {
		case []value:
			return m.T.Const(64, uint64(cap(a)))
		case array:
			return m.T.Const(64, uint64(len(a)))
		case *value:
			return m.T.Const(64, uint64(len((*a).(array))))
		case *Chan:
			return m.T.Const(64, uint64(a.cap))
		}
	case "delete":
		if mp := args[0].(*Map); mp != nil {
			m.mapDelete(mp, args[1])
		}
		return nil
	case "clear":
		switch a := args[0].(type) {
		case *Map:
			if a != nil {
				for i := range a.keys {
					if !a.dead[i] {
						m.mapDelete(a, a.keys[i])
					}
				}
			}
		case []value:
			panic(unsupported("clear on slice"))
		}
		return nil
	case "close":
		c := args[0].(*Chan)
		if c == nil {
			panic(rtPanic("close of nil channel"))
		}
		if m.sched != nil {
			m.blockOn(&pendingOp{kind: "yield"}) // closing a channel is a visible operation
		}
		if c.closed {
			panic(rtPanic("close of closed channel"))
		}
		c.closed = true
		return nil
	case "print", "println":
		for i, a := range args {
			if i > 0 {
				fmt.Fprint(os.Stderr, " ")
			}
			fmt.Fprint(os.Stderr, showValue(a))
		}
		if fn.Name() == "println" {
			fmt.Fprintln(os.Stderr)
		}
		return nil
	case "recover":
		return m.doRecover(caller)
	case "min", "max":
		sig := fn.Type().(*types.Signature)
		t := sig.Params().At(0).Type()
		res := args[0]
		for _, a := range args[1:] {
			var lt *Term
			if fn.Name() == "min" {
				lt = m.binop(token.LSS, t, a, res).(*Term)
			} else {
				lt = m.binop(token.GTR, t, a, res).(*Term)
			}
			switch rv := res.(type) {
			case *Term:
				res = m.T.Ite(lt, a.(*Term), rv)
			default:
				if m.decide(lt) {
					res = a
				}
			}
		}
		return res
	case "ssa:wrapnilchk":
		recv := args[0]
		if p, ok := recv.(*value); ok && p == nil {
			panic(rtPanic("value method called using nil pointer"))
		}
		return recv
	case "String": // unsafe.String(ptr, len)
		n := int(m.concretize(args[1].(*Term)))
		if n == 0 {
			return Str{}
		}
		cells := m.cellsFrom(args[0], n)
		bs := make([]*Term, n)
		for i := range bs {
			bs[i] = cells[i].(*Term)
		}
		return m.mkStr(bs)
	case "SliceData":
		s := args[0].([]value)
		if cap(s) == 0 {
			return (*value)(nil)
		}
		return sliceElemPtr{s: s[:cap(s)]}
	case "StringData":
		return stringDataPtr{s: args[0].(Str)}
	case "Slice": // unsafe.Slice(ptr, len)
		n := int(m.concretize(args[1].(*Term)))
		switch p := args[0].(type) {
		case stringDataPtr:
			bs := m.strBytes(p.s)
			out := make([]value, n)
			for i := range out {
				out[i] = bs[i]
			}
			return out
		case sliceElemPtr:
			return p.s[:n:n]
		}
		panic(unsupported("unsafe.Slice on ordinary pointer"))
	}
	panic(unsupported(fmt.Sprintf("builtin %s on %T", fn.Name(), firstOrNil(args))))
}

// sliceElemPtr / stringDataPtr are the results of unsafe.SliceData / unsafe.StringData.
type sliceElemPtr struct{ s []value }
type stringDataPtr struct{ s Str }

func (m *Machine) cellsFrom(p value, n int) []value {
	switch p := p.(type) {
	case sliceElemPtr:
		return p.s[:n]
	case stringDataPtr:
		bs := m.strBytes(p.s)
		out := make([]value, n)
		for i := range out {
			out[i] = bs[i]
		}
		return out
	}
	panic(unsupported(fmt.Sprintf("unsafe.String from %T", p)))
}

func firstOrNil(args []value) value {
	if len(args) == 0 {
		return nil
	}
	return args[0]
}

func (m *Machine) doRecover(caller *frame) value {
	// recover() must be called directly by a deferred function of the panicking frame.
	if caller != nil && caller.caller != nil && caller.caller.panicking {
		fr := caller.caller
		fr.panicking = false
		p := fr.panic
		fr.panic = nil
		if tp, ok := p.(targetPanic); ok {
			if itf, ok := tp.v.(iface); ok {
				return itf
			}
			return iface{t: types.Typ[types.String], v: conc(fmt.Sprint(tp.v))}
		}
		panic(p)
	}
	return iface{}
}
