package sym

import (
	"crypto/sha256"
	"fmt"
	"go/format"
	"go/token"
	"go/types"
	"sort"
	"strings"
)

func registerIntrinsics(m *Machine) {
	in := m.intrinsics

	// ---- internal/bytealg leaves (assembly in the real build) ----
	in["internal/bytealg.IndexByteString"] = func(m *Machine, fr *frame, a []value) value {
		return m.indexByte(m.strBytes(a[0].(Str)), a[1].(*Term))
	}
	in["internal/bytealg.IndexByte"] = func(m *Machine, fr *frame, a []value) value {
		s := a[0].([]value)
		bs := make([]*Term, len(s))
		for i := range s {
			bs[i] = s[i].(*Term)
		}
		return m.indexByte(bs, a[1].(*Term))
	}
	in["internal/bytealg.CountString"] = func(m *Machine, fr *frame, a []value) value {
		bs := m.strBytes(a[0].(Str))
		c := a[1].(*Term)
		n := m.T.Const(64, 0)
		for _, b := range bs {
			n = m.T.Bin(OpAdd, n, m.T.Ite(m.T.Eq(b, c), m.T.Const(64, 1), m.T.Const(64, 0)))
		}
		return n
	}
	in["internal/bytealg.Count"] = func(m *Machine, fr *frame, a []value) value {
		c := a[1].(*Term)
		n := m.T.Const(64, 0)
		for _, b := range a[0].([]value) {
			n = m.T.Bin(OpAdd, n, m.T.Ite(m.T.Eq(b.(*Term), c), m.T.Const(64, 1), m.T.Const(64, 0)))
		}
		return n
	}
	in["internal/bytealg.Equal"] = func(m *Machine, fr *frame, a []value) value {
		x, y := a[0].([]value), a[1].([]value)
		if len(x) != len(y) {
			return m.T.False
		}
		res := m.T.True
		for i := range x {
			res = m.T.And(res, m.T.Eq(x[i].(*Term), y[i].(*Term)))
		}
		return res
	}
	in["internal/bytealg.Index"] = func(m *Machine, fr *frame, a []value) value {
		return m.indexString(valuesToBytes(a[0].([]value)), valuesToBytes(a[1].([]value)))
	}
	// substring search as one term (the library's Rabin-Karp / brute-force loops branch on
	// hashes of symbolic bytes)
	strIndex := func(m *Machine, fr *frame, a []value) value {
		return m.indexString(m.strBytes(a[0].(Str)), m.strBytes(a[1].(Str)))
	}
	in["internal/stringslite.Index"] = strIndex
	in["strings.Index"] = strIndex
	in["bytes.Index"] = func(m *Machine, fr *frame, a []value) value {
		return m.indexString(valuesToBytes(a[0].([]value)), valuesToBytes(a[1].([]value)))
	}
	in["internal/bytealg.IndexString"] = func(m *Machine, fr *frame, a []value) value {
		hay, needle := m.strBytes(a[0].(Str)), m.strBytes(a[1].(Str))
		return m.indexString(hay, needle)
	}
	in["internal/bytealg.MakeNoZero"] = func(m *Machine, fr *frame, a []value) value {
		n := int(m.concretize(a[0].(*Term)))
		s := make([]value, n)
		for i := range s {
			s[i] = m.T.Const(8, 0)
		}
		return s
	}
	in["internal/stringslite.Clone"] = func(m *Machine, fr *frame, a []value) value { return a[0] }
	in["strings.Clone"] = in["internal/stringslite.Clone"]

	// ---- strings.Builder: methods operate on the real struct (addr, buf) ----
	sbBuf := func(recv value) *value {
		p := recv.(*value)
		if p == nil {
			panic(rtPanic("nil *strings.Builder"))
		}
		return &(*p).(structure)[1]
	}
	sbAppend := func(m *Machine, recv value, bs []*Term) {
		bp := sbBuf(recv)
		cur, _ := (*bp).([]value)
		out := make([]value, len(cur), len(cur)+len(bs))
		copy(out, cur)
		for _, b := range bs {
			out = append(out, b)
		}
		m.store(bp, out)
	}
	in["(*strings.Builder).WriteString"] = func(m *Machine, fr *frame, a []value) value {
		s := a[1].(Str)
		sbAppend(m, a[0], m.strBytes(s))
		return tuple{m.T.Const(64, uint64(s.Len())), iface{}}
	}
	in["(*strings.Builder).Write"] = func(m *Machine, fr *frame, a []value) value {
		s := a[1].([]value)
		bs := make([]*Term, len(s))
		for i := range s {
			bs[i] = s[i].(*Term)
		}
		sbAppend(m, a[0], bs)
		return tuple{m.T.Const(64, uint64(len(s))), iface{}}
	}
	in["(*strings.Builder).WriteByte"] = func(m *Machine, fr *frame, a []value) value {
		sbAppend(m, a[0], []*Term{a[1].(*Term)})
		return iface{}
	}
	in["(*strings.Builder).WriteRune"] = func(m *Machine, fr *frame, a []value) value {
		bs := m.encodeRune(a[1].(*Term))
		sbAppend(m, a[0], bs)
		return tuple{m.T.Const(64, uint64(len(bs))), iface{}}
	}
	in["(*strings.Builder).String"] = func(m *Machine, fr *frame, a []value) value {
		cur, _ := (*sbBuf(a[0])).([]value)
		bs := make([]*Term, len(cur))
		for i := range cur {
			bs[i] = cur[i].(*Term)
		}
		return m.mkStr(bs)
	}
	in["(*strings.Builder).Len"] = func(m *Machine, fr *frame, a []value) value {
		cur, _ := (*sbBuf(a[0])).([]value)
		return m.T.Const(64, uint64(len(cur)))
	}
	in["(*strings.Builder).Cap"] = in["(*strings.Builder).Len"]
	in["(*strings.Builder).Grow"] = func(m *Machine, fr *frame, a []value) value {
		if n := a[1].(*Term); n.IsConst() && sext(n.K, 64) < 0 {
			panic(targetPanic{iface{t: types.Typ[types.String], v: conc("strings.Builder.Grow: negative count")}})
		}
		return nil
	}
	in["(*strings.Builder).Reset"] = func(m *Machine, fr *frame, a []value) value {
		m.store(sbBuf(a[0]), []value(nil))
		return nil
	}

	// ---- sync ----
	in["(*sync.Once).Do"] = func(m *Machine, fr *frame, a []value) value {
		p := a[0].(*value)
		st := (*p).(structure)
		// field 0 is `done` (atomic.Uint32 {_ noCopy; v uint32}) in go1.23; keep our own flag in it.
		done := &st[0]
		if d, ok := (*done).(structure); ok {
			if v, ok := d[len(d)-1].(*Term); ok && v.IsConst() && v.K != 0 {
				return nil
			}
			nd := copyVal(d).(structure)
			nd[len(nd)-1] = m.T.Const(32, 1)
			m.store(done, nd)
		} else if v, ok := (*done).(*Term); ok {
			if v.IsConst() && v.K != 0 {
				return nil
			}
			m.store(done, m.T.Const(v.W, 1))
		}
		m.call(fr, token.NoPos, a[1], nil)
		return nil
	}
	nop := func(m *Machine, fr *frame, a []value) value { return nil }
	for _, n := range []string{
		"(*sync.Mutex).Lock", "(*sync.Mutex).Unlock", "(*sync.RWMutex).Lock", "(*sync.RWMutex).Unlock",
		"(*sync.RWMutex).RLock", "(*sync.RWMutex).RUnlock",
	} {
		in[n] = nop
	}
	in["(*sync.Mutex).TryLock"] = func(m *Machine, fr *frame, a []value) value { return m.T.True }

	// ---- internal/reflectlite (enough for errors/context package initialisation) ----
	in["internal/reflectlite.TypeOf"] = func(m *Machine, fr *frame, a []value) value {
		itf := a[0].(iface)
		if itf.t == nil {
			return iface{}
		}
		return iface{t: opaqueRType, v: opaque{"rtype", itf.t}}
	}
	in["reflect.TypeOf"] = in["internal/reflectlite.TypeOf"]
	in["opaque:rtype.Elem"] = func(m *Machine, fr *frame, a []value) value {
		t := a[0].(opaque).data.(types.Type)
		switch u := t.Underlying().(type) {
		case *types.Pointer:
			return iface{t: opaqueRType, v: opaque{"rtype", u.Elem()}}
		case *types.Slice:
			return iface{t: opaqueRType, v: opaque{"rtype", u.Elem()}}
		}
		panic(unsupported("rtype.Elem on " + t.String()))
	}
	in["opaque:rtype.Comparable"] = func(m *Machine, fr *frame, a []value) value {
		return m.T.Bool(types.Comparable(a[0].(opaque).data.(types.Type)))
	}
	in["opaque:rtype.String"] = func(m *Machine, fr *frame, a []value) value {
		return conc(a[0].(opaque).data.(types.Type).String())
	}

	// ---- regexp: pattern from the source, simulated as an NFA over byte terms ----
	mustCompile := func(m *Machine, fr *frame, a []value) value {
		pat := a[0].(Str)
		if !pat.Concrete() {
			panic(unsupported("regexp pattern is symbolic"))
		}
		cr, err := compileRegexp(pat.s)
		if err != nil {
			panic(targetPanic{iface{t: types.Typ[types.String], v: conc("regexp: Compile(" + pat.s + "): " + err.Error())}})
		}
		var v value = opaque{"regexp", cr}
		return &v
	}
	in["regexp.MustCompile"] = mustCompile
	in["(*regexp.Regexp).Match"] = func(m *Machine, fr *frame, a []value) value {
		p := a[0].(*value)
		cr := (*p).(opaque).data.(*compiledRegexp)
		return m.regexMatch(cr, valuesToBytes(a[1].([]value)))
	}
	in["regexp.Compile"] = func(m *Machine, fr *frame, a []value) value {
		return tuple{mustCompile(m, fr, a), iface{}}
	}
	in["(*regexp.Regexp).MatchString"] = func(m *Machine, fr *frame, a []value) value {
		p := a[0].(*value)
		cr := (*p).(opaque).data.(*compiledRegexp)
		return m.regexMatch(cr, m.strBytes(a[1].(Str)))
	}
	in["(*regexp.Regexp).String"] = func(m *Machine, fr *frame, a []value) value {
		return conc((*a[0].(*value)).(opaque).data.(*compiledRegexp).pattern)
	}

	// ---- sync.Pool model: LIFO of Put objects, or New() ----
	in["(*sync.Pool).Get"] = func(m *Machine, fr *frame, a []value) value {
		p := a[0].(*value)
		st := m.pools[p]
		if len(st) > 0 {
			v := st[len(st)-1]
			m.pools[p] = st[:len(st)-1]
			if m.journaling {
				m.journal = append(m.journal, undo{f: func() { m.pools[p] = append(m.pools[p], v) }})
			}
			return v
		}
		// field "New" is the last field of sync.Pool
		fields := (*p).(structure)
		newFn := fields[len(fields)-1]
		if isNilFunc(newFn) {
			return iface{}
		}
		return m.call(fr, token.NoPos, newFn, nil)
	}
	in["(*sync.Pool).Put"] = func(m *Machine, fr *frame, a []value) value {
		p := a[0].(*value)
		m.pools[p] = append(m.pools[p], a[1])
		if m.journaling {
			m.journal = append(m.journal, undo{f: func() { m.pools[p] = m.pools[p][:len(m.pools[p])-1] }})
		}
		return nil
	}

	// ---- sync/atomic: plain operations (the engine is sequentially consistent) ----
	// With the run parameter ATOMIC_POINTS = 1 every atomic operation is preceded by a scheduling
	// point, so that other goroutines may run between two atomic operations of one goroutine.
	atomicPoint := func(m *Machine) {
		if m.sched != nil && m.Params["ATOMIC_POINTS"] == 1 {
			m.blockOn(&pendingOp{kind: "yield"}) // switching away here costs a preemption
		}
	}
	for _, ty := range []string{"Int32", "Int64", "Uint32", "Uint64", "Uintptr"} {
		ty := ty
		in["sync/atomic.Load"+ty] = func(m *Machine, fr *frame, a []value) value {
			atomicPoint(m)
			p := a[0].(*value)
			if p == nil {
				panic(rtPanic("invalid memory address or nil pointer dereference"))
			}
			return *p
		}
		in["sync/atomic.Store"+ty] = func(m *Machine, fr *frame, a []value) value {
			atomicPoint(m)
			m.store(a[0].(*value), a[1])
			return nil
		}
		in["sync/atomic.Add"+ty] = func(m *Machine, fr *frame, a []value) value {
			atomicPoint(m)
			p := a[0].(*value)
			nv := m.T.Bin(OpAdd, (*p).(*Term), a[1].(*Term))
			m.store(p, nv)
			return nv
		}
		in["sync/atomic.Swap"+ty] = func(m *Machine, fr *frame, a []value) value {
			atomicPoint(m)
			p := a[0].(*value)
			old := *p
			m.store(p, a[1])
			return old
		}
		in["sync/atomic.CompareAndSwap"+ty] = func(m *Machine, fr *frame, a []value) value {
			atomicPoint(m)
			p := a[0].(*value)
			if m.decide(m.T.Eq((*p).(*Term), a[1].(*Term))) {
				m.store(p, a[2])
				return m.T.True
			}
			return m.T.False
		}
	}
	in["sync/atomic.LoadPointer"] = func(m *Machine, fr *frame, a []value) value { return *(a[0].(*value)) }
	in["sync/atomic.StorePointer"] = func(m *Machine, fr *frame, a []value) value {
		m.store(a[0].(*value), a[1])
		return nil
	}
	in["(*sync/atomic.Value).Load"] = func(m *Machine, fr *frame, a []value) value {
		return (*a[0].(*value)).(structure)[0]
	}
	in["(*sync/atomic.Value).Store"] = func(m *Machine, fr *frame, a []value) value {
		m.store(&(*a[0].(*value)).(structure)[0], a[1])
		return nil
	}

	// ---- crypto/sha256: native on concrete input, an uninterpreted function otherwise ----
	in["crypto/sha256.Sum256"] = func(m *Machine, fr *frame, a []value) value {
		data := a[0].([]value)
		concrete := true
		for _, d := range data {
			if !d.(*Term).IsConst() {
				concrete = false
				break
			}
		}
		out := make(array, 32)
		if concrete {
			b := make([]byte, len(data))
			for i, d := range data {
				b[i] = byte(d.(*Term).K)
			}
			sum := sha256.Sum256(b)
			for i := range out {
				out[i] = m.T.Const(8, uint64(sum[i]))
			}
			return out
		}
		var key strings.Builder
		for _, d := range data {
			fmt.Fprintf(&key, "%x_", m.T.StructHash(d.(*Term)))
		}
		h := sha256.Sum256([]byte(key.String()))
		for i := range out {
			out[i] = m.T.Var(fmt.Sprintf("sha!%x!%d", h[:6], i), 8)
		}
		return out
	}

	// ---- go/format.Source: run natively on concrete text (gofmt itself is not a subject) ----
	in["go/format.Source"] = func(m *Machine, fr *frame, a []value) value {
		src := a[0].([]value)
		b := make([]byte, len(src))
		for i, v := range src {
			t := v.(*Term)
			if !t.IsConst() {
				panic(unsupported("go/format.Source on symbolic text"))
			}
			b[i] = byte(t.K)
		}
		out, err := format.Source(b)
		if err != nil {
			return tuple{[]value(nil), m.errorsNew(fr, err.Error())}
		}
		res := make([]value, len(out))
		for i, c := range out {
			res[i] = m.T.Const(8, uint64(c))
		}
		return tuple{res, iface{}}
	}

	// ---- sha256 as a hash.Hash: accumulate, then digest as above ----
	type shaState struct{ data []*Term }
	in["crypto/sha256.New"] = func(m *Machine, fr *frame, a []value) value {
		sp := m.Prog.ImportedPackage("crypto/sha256")
		var v value = opaque{"sha256", &shaState{}}
		return iface{t: types.NewPointer(sp.Type("digest").Type()), v: &v}
	}
	in["(*crypto/sha256.digest).Write"] = func(m *Machine, fr *frame, a []value) value {
		st := (*a[0].(*value)).(opaque).data.(*shaState)
		p := valuesToBytes(a[1].([]value))
		old := st.data
		st.data = append(append([]*Term(nil), st.data...), p...)
		if m.journaling {
			m.journal = append(m.journal, undo{f: func() { st.data = old }})
		}
		return tuple{m.T.Const(64, uint64(len(p))), iface{}}
	}
	in["(*crypto/sha256.digest).Sum"] = func(m *Machine, fr *frame, a []value) value {
		st := (*a[0].(*value)).(opaque).data.(*shaState)
		sum := in["crypto/sha256.Sum256"](m, fr, []value{m.bytesToValues(st.data)}).(array)
		out := append([]value(nil), a[1].([]value)...)
		return append(out, []value(sum)...)
	}
	in["(*crypto/sha256.digest).Reset"] = func(m *Machine, fr *frame, a []value) value {
		st := (*a[0].(*value)).(opaque).data.(*shaState)
		old := st.data
		st.data = nil
		if m.journaling {
			m.journal = append(m.journal, undo{f: func() { st.data = old }})
		}
		return nil
	}
	in["(*crypto/sha256.digest).Size"] = func(m *Machine, fr *frame, a []value) value { return m.T.Const(64, 32) }
	in["(*crypto/sha256.digest).BlockSize"] = func(m *Machine, fr *frame, a []value) value { return m.T.Const(64, 64) }

	// ---- environment stubs ----
	in["os.Getenv"] = func(m *Machine, fr *frame, a []value) value { return Str{} }

	// ---- harness API (matched by bare name in any package) ----
	in["sym:symString"] = func(m *Machine, fr *frame, a []value) value {
		name := a[0].(Str).s
		max := int(m.concretize(a[1].(*Term)))
		return m.symString(name, max)
	}
	in["sym:symByte"] = func(m *Machine, fr *frame, a []value) value {
		return m.symInt(a[0].(Str).s, 8, "byte")
	}
	in["sym:symBool"] = func(m *Machine, fr *frame, a []value) value {
		return m.symInt(a[0].(Str).s, 0, "bool")
	}
	in["sym:symInt"] = func(m *Machine, fr *frame, a []value) value {
		return m.symInt(a[0].(Str).s, 64, "int")
	}
	in["sym:symUint32"] = func(m *Machine, fr *frame, a []value) value {
		return m.symInt(a[0].(Str).s, 32, "uint32")
	}
	in["sym:symAssume"] = func(m *Machine, fr *frame, a []value) value {
		m.assume(a[0].(*Term))
		return nil
	}
	in["sym:symAssert"] = func(m *Machine, fr *frame, a []value) value {
		m.assertProp(a[0].(*Term), a[1].(Str).s)
		return nil
	}
	in["sym:symAssertEq"] = func(m *Machine, fr *frame, a []value) value {
		got, want := a[0].(Str), a[1].(Str)
		p := m.path
		nv, nk := len(p.Violations), len(p.KnownHits)
		m.path.obs = append(m.path.obs, obsRec{"~got", got}, obsRec{"~want", want})
		defer func() {
			// the two pseudo-observations only serve to show got/want in a violation report
			p.obs = p.obs[:len(p.obs)-2]
			for i := nv; i < len(p.Violations); i++ {
				stripEqObs(&p.Violations[i])
			}
			for i := nk; i < len(p.KnownHits); i++ {
				stripEqObs(&p.KnownHits[i])
			}
		}()
		m.assertProp(m.strEq(got, want), a[2].(Str).s)
		return nil
	}
	// symNative: false under the engine (natively true); symNativeRepeat: 1 under the engine
	in["sym:symNative"] = func(m *Machine, fr *frame, a []value) value { return m.T.False }
	in["sym:symNativeRepeat"] = func(m *Machine, fr *frame, a []value) value { return m.T.Const(64, 1) }
	in["sym:symCover"] = func(m *Machine, fr *frame, a []value) value {
		label := a[0].(Str).s
		m.path.covers[label]++
		if m.Witness && !m.witnessed[label] {
			if m.witnessed == nil {
				m.witnessed = map[string]bool{}
			}
			m.witnessed[label] = true
			m.recordViolation("witness: "+label, m.path.model, "")
		}
		return nil
	}
	in["sym:symParam"] = func(m *Machine, fr *frame, a []value) value {
		name := a[0].(Str).s
		v, ok := m.Params[name]
		if !ok {
			panic(abort{"engine", "harness parameter " + name + " is not set for this tier"})
		}
		return m.T.Const(64, uint64(v))
	}
	in["sym:symObserve"] = func(m *Machine, fr *frame, a []value) value {
		m.path.obs = append(m.path.obs, obsRec{a[0].(Str).s, a[1]})
		return nil
	}
	in["sym:symObserveInt"] = in["sym:symObserve"]
	in["sym:symObserveBool"] = in["sym:symObserve"]
	in["sym:symKnown"] = func(m *Machine, fr *frame, a []value) value {
		m.path.classes = append(m.path.classes, knownClass{a[0].(Str).s, a[1].(*Term)})
		return nil
	}
	in["sym:symChoose"] = func(m *Machine, fr *frame, a []value) value {
		n := int(m.concretize(a[0].(*Term)))
		if n <= 0 {
			panic(abort{"engine", "symChoose(n) with n <= 0"})
		}
		return m.T.Const(64, m.chooseRecorded(n))
	}
	in["sym:symInt32"] = func(m *Machine, fr *frame, a []value) value {
		return m.symInt(a[0].(Str).s, 32, "int32")
	}
	in["sym:symUint64"] = func(m *Machine, fr *frame, a []value) value {
		return m.symInt(a[0].(Str).s, 64, "uint64")
	}
	in["sym:symInt64"] = func(m *Machine, fr *frame, a []value) value {
		return m.symInt(a[0].(Str).s, 64, "int64")
	}
	in["sym:symBytes"] = func(m *Machine, fr *frame, a []value) value {
		s := m.symString(a[0].(Str).s, int(m.concretize(a[1].(*Term))))
		bs := m.strBytes(s)
		out := make([]value, len(bs))
		for i, b := range bs {
			out[i] = b
		}
		return out
	}
	in["sym:symAnd"] = func(m *Machine, fr *frame, a []value) value { return m.T.And(a[0].(*Term), a[1].(*Term)) }
	in["sym:symOr"] = func(m *Machine, fr *frame, a []value) value { return m.T.Or(a[0].(*Term), a[1].(*Term)) }
	in["sym:symNot"] = func(m *Machine, fr *frame, a []value) value { return m.T.Not(a[0].(*Term)) }
	in["sym:symIteInt"] = func(m *Machine, fr *frame, a []value) value {
		return m.T.Ite(a[0].(*Term), a[1].(*Term), a[2].(*Term))
	}
	in["sym:symDFAAccepts"] = func(m *Machine, fr *frame, a []value) value {
		return m.dfaAccepts(a[0].([]value), int(m.concretize(a[1].(*Term))), a[2].([]value), a[3].(*Term), m.strBytes(a[4].(Str)), a[5].([]value))
	}
	in["sym:symConcretize"] = func(m *Machine, fr *frame, a []value) value {
		t := a[0].(*Term)
		return m.T.Const(t.W, m.concretize(t))
	}
}

// indexByte returns the index of the first byte equal to c, or -1, as a term.
func (m *Machine) indexByte(bs []*Term, c *Term) *Term {
	res := m.T.Const(64, ^uint64(0))
	for i := len(bs) - 1; i >= 0; i-- {
		res = m.T.Ite(m.T.Eq(bs[i], c), m.T.Const(64, uint64(i)), res)
	}
	return res
}

func (m *Machine) indexString(hay, needle []*Term) *Term {
	res := m.T.Const(64, ^uint64(0))
	n := len(needle)
	for i := len(hay) - n; i >= 0; i-- {
		eq := m.T.True
		for j := 0; j < n && eq != m.T.False; j++ {
			eq = m.T.And(eq, m.T.Eq(hay[i+j], needle[j]))
		}
		res = m.T.Ite(eq, m.T.Const(64, uint64(i)), res)
	}
	return res
}

// opaqueRType is the dynamic type tag carried by interface values holding an opaque rtype.
var opaqueRType = types.NewNamed(types.NewTypeName(token.NoPos, nil, "symgo.rtype", nil), types.NewStruct(nil, nil), nil)

var _ = fmt.Sprint

// dfaAccepts simulates a concrete table-driven DFA over symbolic bytes with a one-hot state
// vector: cur[s] is the condition under which the automaton is in state s.
func (m *Machine) dfaAccepts(trans []value, nc int, class []value, start *Term, bs []*Term, accept []value) *Term {
	k := func(v value) int {
		t := v.(*Term)
		if !t.IsConst() {
			panic(unsupported("symDFAAccepts: tables must be concrete"))
		}
		return int(t.K)
	}
	if !start.IsConst() {
		panic(unsupported("symDFAAccepts: start state must be concrete"))
	}
	nstates := len(trans) / nc
	if len(class) != 256 || len(accept) < nstates {
		panic(abort{"engine", "symDFAAccepts: malformed tables"})
	}
	// bytes of each class
	byClass := make([][]int, nc)
	for b := 0; b < 256; b++ {
		c := k(class[b])
		byClass[c] = append(byClass[c], b)
	}
	cur := map[int]*Term{int(start.K): m.T.True}
	for _, b := range bs {
		next := map[int]*Term{}
		var order []int
		if b.IsConst() {
			c := k(class[b.K])
			for s, cond := range cur {
				t := k(trans[s*nc+c])
				if old, ok := next[t]; ok {
					next[t] = m.T.Or(old, cond)
				} else {
					next[t] = cond
					order = append(order, t)
				}
			}
			cur = next
			continue
		}
		isClass := make([]*Term, nc)
		states := make([]int, 0, len(cur))
		for s := range cur {
			states = append(states, s)
		}
		sort.Ints(states)
		for _, s := range states {
			cond := cur[s]
			// group classes by target
			tgt := map[int][]int{}
			var tord []int
			for c := 0; c < nc; c++ {
				if len(byClass[c]) == 0 {
					continue
				}
				t := k(trans[s*nc+c])
				if _, ok := tgt[t]; !ok {
					tord = append(tord, t)
				}
				tgt[t] = append(tgt[t], c)
			}
			for _, t := range tord {
				var in *Term
				if len(tord) == 1 {
					in = m.T.True
				} else {
					in = m.T.False
					for _, c := range tgt[t] {
						if isClass[c] == nil {
							isClass[c] = m.inSet(b, byClass[c])
						}
						in = m.T.Or(in, isClass[c])
					}
				}
				cnd := m.T.And(cond, in)
				if cnd == m.T.False {
					continue
				}
				if old, ok := next[t]; ok {
					next[t] = m.T.Or(old, cnd)
				} else {
					next[t] = cnd
				}
			}
		}
		cur = next
	}
	res := m.T.False
	states := make([]int, 0, len(cur))
	for s := range cur {
		states = append(states, s)
	}
	sort.Ints(states)
	for _, s := range states {
		if k(accept[s]) != 0 {
			res = m.T.Or(res, cur[s])
		}
	}
	return res
}

func stripEqObs(v *Violation) {
	obs := v.Case.Obs
	if len(obs) >= 2 && obs[len(obs)-2].Label == "~got" {
		v.Inputs["~got"] = obs[len(obs)-2].Val
		v.Inputs["~want"] = obs[len(obs)-1].Val
		v.Case.Obs = obs[:len(obs)-2]
	}
}
