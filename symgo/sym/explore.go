package sym

import (
	"fmt"
	"os"
	"strings"
)

// Decision is one recorded choice on a path.
type Decision struct {
	Branch bool   // for branch decisions
	IsVal  bool   // concretisation: Val chosen
	Val    uint64 //
}

func (d Decision) String() string {
	if d.IsVal {
		return fmt.Sprintf("=%d", d.Val)
	}
	if d.Branch {
		return "T"
	}
	return "F"
}

// Work is a pending path: a decision prefix plus a model that satisfies its path condition.
type Work struct {
	Prefix []Decision
	Model  map[string]uint64
}

// Violation is a failed assertion with a witness.
type Violation struct {
	Msg    string
	Model  map[string]uint64
	Inputs map[string]string // rendered symbolic inputs under the model
	Path   string
	Known  string // non-empty: matched a known-finding class
	Case   Case
	Entry  string
}

type obsRec struct {
	label string
	val   value
}

type knownClass struct {
	id   string
	pred *Term
}

// Path is the state of the path being executed.
type Path struct {
	prefix    []Decision
	taken     []Decision
	pc        []*Term
	pcSet     map[int]bool
	model     map[string]uint64
	memo      map[int]uint64
	forks     []Work
	inputs    []inputVar
	covers    map[string]int
	assumes   int
	known     map[string]uint64
	knownMemo map[int]knownVal

	obs     []obsRec
	choices []*Term
	classes []knownClass

	Violations     []Violation
	KnownHits      []Violation
	Inconclusive   []string
	MapOrderNondet bool
	End            string // how the path ended
}

type inputVar struct {
	name  string
	kind  string // "str", "int", "bool", "byte"
	terms []*Term
}

func (m *Machine) addPC(c *Term) {
	p := m.path
	if c.IsConst() {
		if c.K == 0 {
			panic(abort{"infeasible", "false added to path condition"})
		}
		return
	}
	if p.pcSet[c.ID] {
		return
	}
	p.pc = append(p.pc, c)
	p.pcSet[c.ID] = true
	m.S.Assert(c)
	// remember variable bindings implied by equalities, for solver-free evaluation later
	switch {
	case c.Op == OpEq && c.Args[0].Op == OpVar && c.Args[1].IsConst():
		p.bind(c.Args[0].Name, c.Args[1].K)
	case c.Op == OpEq && c.Args[1].Op == OpVar && c.Args[0].IsConst():
		p.bind(c.Args[1].Name, c.Args[0].K)
	case c.Op == OpVar:
		p.bind(c.Name, 1)
	case c.Op == OpNot && c.Args[0].Op == OpVar:
		p.bind(c.Args[0].Name, 0)
	}
}

func (p *Path) bind(name string, v uint64) {
	if p.known == nil {
		p.known = map[string]uint64{}
	}
	p.known[name] = v
	p.knownMemo = nil
}

// evalKnown evaluates t using only variables bound by the path condition.
func (m *Machine) evalKnown(t *Term) (uint64, bool) {
	p := m.path
	if t.IsConst() {
		return t.K, true
	}
	if len(p.known) == 0 {
		return 0, false
	}
	if p.knownMemo == nil {
		p.knownMemo = map[int]knownVal{}
	}
	return evalPartial(t, p.known, p.knownMemo)
}

type knownVal struct {
	v  uint64
	ok bool
}

func evalPartial(t *Term, env map[string]uint64, memo map[int]knownVal) (uint64, bool) {
	if t.Op == OpConst {
		return t.K, true
	}
	if r, ok := memo[t.ID]; ok {
		return r.v, r.ok
	}
	var v uint64
	ok := false
	switch t.Op {
	case OpVar:
		v, ok = env[t.Name]
	case OpIte:
		if c, cok := evalPartial(t.Args[0], env, memo); cok {
			if c != 0 {
				v, ok = evalPartial(t.Args[1], env, memo)
			} else {
				v, ok = evalPartial(t.Args[2], env, memo)
			}
		}
	case OpAnd:
		a, aok := evalPartial(t.Args[0], env, memo)
		b, bok := evalPartial(t.Args[1], env, memo)
		switch {
		case aok && a == 0, bok && b == 0:
			v, ok = 0, true
		case aok && bok:
			v, ok = 1, true
		}
	case OpOr:
		a, aok := evalPartial(t.Args[0], env, memo)
		b, bok := evalPartial(t.Args[1], env, memo)
		switch {
		case aok && a != 0, bok && b != 0:
			v, ok = 1, true
		case aok && bok:
			v, ok = 0, true
		}
	default:
		vals := map[string]uint64{}
		all := true
		for _, a := range t.Args {
			if _, aok := evalPartial(a, env, memo); !aok {
				all = false
				break
			}
		}
		if all {
			// every argument is determined: reuse the total evaluator on a model made of them
			_ = vals
			v = evalWith(t, env, memo)
			ok = true
		}
	}
	memo[t.ID] = knownVal{v, ok}
	return v, ok
}

// evalWith evaluates an operator node whose arguments are all determined.
func evalWith(t *Term, env map[string]uint64, memo map[int]knownVal) uint64 {
	args := make([]*Term, len(t.Args))
	tmp := NewTerms()
	for i, a := range t.Args {
		r := memo[a.ID]
		if a.Op == OpConst {
			r = knownVal{a.K, true}
		}
		if a.W == 0 {
			args[i] = tmp.Bool(r.v != 0)
		} else {
			args[i] = tmp.Const(a.W, r.v)
		}
	}
	n := &Term{ID: -1, Op: t.Op, W: t.W, K: t.K, Args: args}
	return Eval(n, nil, map[int]uint64{})
}

func (m *Machine) evalModel(t *Term) uint64 {
	p := m.path
	if p.memo == nil {
		p.memo = map[int]uint64{}
	}
	return Eval(t, p.model, p.memo)
}

func (m *Machine) setModel(model map[string]uint64) {
	m.path.model = model
	m.path.memo = nil
}

// decide resolves a branch on cond, forking when both sides are feasible.
func (m *Machine) decide(cond *Term) bool {
	if cond.IsConst() {
		return cond.K != 0
	}
	p := m.path
	if p == nil {
		panic(abort{"engine", "symbolic branch outside a path (during init?)"})
	}
	if p.pcSet[cond.ID] {
		return true
	}
	ncond := m.T.Not(cond)
	if p.pcSet[ncond.ID] {
		return false
	}
	if v, ok := m.evalKnown(cond); ok {
		return v != 0
	}
	i := len(p.taken)
	if i < len(p.prefix) {
		d := p.prefix[i]
		if d.IsVal {
			panic(abort{"engine", "decision vector out of sync (expected branch)"})
		}
		p.taken = append(p.taken, d)
		if d.Branch {
			m.addPC(cond)
		} else {
			m.addPC(ncond)
		}
		return d.Branch
	}
	if m.DecideProfile != nil {
		m.DecideProfile[m.curFn]++
		if os.Getenv("SYMGO_DECIDE_PRINT") != "" {
			fmt.Fprintf(os.Stderr, "DECIDE in %s: %s\n", m.curFn, cond)
		}
	}
	mv := m.evalModel(cond) != 0
	other := ncond
	if !mv {
		other = cond
	}
	r, m2 := m.S.CheckWith(other, m.T.Vars)
	m.maybeCross(other, r)
	switch r {
	case Sat:
		alt := make([]Decision, i+1)
		copy(alt, p.taken)
		alt[i] = Decision{Branch: !mv}
		p.forks = append(p.forks, Work{Prefix: alt, Model: m2})
	case Unknown:
		p.Inconclusive = append(p.Inconclusive, "solver unknown on branch feasibility")
	}
	p.taken = append(p.taken, Decision{Branch: mv})
	if mv {
		m.addPC(cond)
	} else {
		m.addPC(ncond)
	}
	return mv
}

const concretizeCap = 300

// concretize forks over every feasible value of t.
func (m *Machine) concretize(t *Term) uint64 {
	if t.IsConst() {
		return t.K
	}
	p := m.path
	if p == nil {
		panic(abort{"engine", "symbolic concretisation outside a path"})
	}
	if v, ok := m.evalKnown(t); ok {
		return v
	}
	i := len(p.taken)
	if i < len(p.prefix) {
		d := p.prefix[i]
		if !d.IsVal {
			panic(abort{"engine", "decision vector out of sync (expected value)"})
		}
		p.taken = append(p.taken, d)
		m.addPC(m.T.Eq(t, m.T.Const(t.W, d.Val)))
		return d.Val
	}
	v := m.evalModel(t)
	// enumerate the other feasible values now
	m.S.Push()
	m.S.Assert(m.T.Not(m.T.Eq(t, m.T.Const(t.W, v))))
	n := 0
	for {
		r := m.S.Check()
		if r == Unknown {
			p.Inconclusive = append(p.Inconclusive, "solver unknown during concretisation")
			break
		}
		if r == Unsat {
			break
		}
		m2 := m.S.Model(m.T.Vars)
		v2 := Eval(t, m2, map[int]uint64{})
		alt := make([]Decision, i+1)
		copy(alt, p.taken)
		alt[i] = Decision{IsVal: true, Val: v2}
		p.forks = append(p.forks, Work{Prefix: alt, Model: m2})
		m.S.Assert(m.T.Not(m.T.Eq(t, m.T.Const(t.W, v2))))
		n++
		if n > concretizeCap {
			p.Inconclusive = append(p.Inconclusive, fmt.Sprintf("concretisation of %s wider than %d values", t, concretizeCap))
			break
		}
	}
	m.S.Pop()
	p.taken = append(p.taken, Decision{IsVal: true, Val: v})
	m.addPC(m.T.Eq(t, m.T.Const(t.W, v)))
	return v
}

// choose returns a nondeterministic value in [0,n).
func (m *Machine) choose(n int) uint64 {
	p := m.path
	return m.chooseVar(m.T.Var(fmt.Sprintf("choice!%d", len(p.taken)), 64), n)
}

// chooseRecorded is choose for harness-visible choices (replayed natively in order).
func (m *Machine) chooseRecorded(n int) uint64 {
	p := m.path
	v := m.T.Var(fmt.Sprintf("hchoice!%d", len(p.choices)), 64)
	p.choices = append(p.choices, v)
	return m.chooseVar(v, n)
}

// chooseVar forks over the n values of a fresh, otherwise unconstrained variable. No solver
// query is needed: every value is feasible.
func (m *Machine) chooseVar(v *Term, n int) uint64 {
	p := m.path
	p.assumes++
	i := len(p.taken)
	var val uint64
	if i < len(p.prefix) {
		d := p.prefix[i]
		if !d.IsVal {
			panic(abort{"engine", "decision vector out of sync (expected a choice)"})
		}
		val = d.Val
	} else {
		for k := n - 1; k >= 1; k-- {
			alt := make([]Decision, i+1)
			copy(alt, p.taken)
			alt[i] = Decision{IsVal: true, Val: uint64(k)}
			m2 := make(map[string]uint64, len(p.model)+1)
			for a, b := range p.model {
				m2[a] = b
			}
			m2[v.Name] = uint64(k)
			p.forks = append(p.forks, Work{Prefix: alt, Model: m2})
		}
		val = 0
		if p.model == nil {
			p.model = map[string]uint64{}
		}
		if p.model[v.Name] != 0 {
			mm := make(map[string]uint64, len(p.model))
			for a, b := range p.model {
				mm[a] = b
			}
			mm[v.Name] = 0
			m.setModel(mm)
		}
	}
	p.taken = append(p.taken, Decision{IsVal: true, Val: val})
	m.addPC(m.T.Eq(v, m.T.Const(64, val)))
	return val
}

// assume adds c to the path condition, ending the path if it cannot hold.
func (m *Machine) assume(c *Term) {
	p := m.path
	p.assumes++
	if c.IsConst() {
		if c.K == 0 {
			panic(abort{"infeasible", "assumption is false"})
		}
		return
	}
	if p.pcSet[c.ID] {
		return
	}
	if v, ok := m.evalKnown(c); ok {
		if v == 0 {
			panic(abort{"infeasible", "assumption is false on this path"})
		}
		return
	}
	if m.evalModel(c) == 0 {
		r, m2 := m.S.CheckWith(c, m.T.Vars)
		if r == Unsat {
			panic(abort{"infeasible", "assumption unsatisfiable on this path"})
		}
		if r == Unknown {
			p.Inconclusive = append(p.Inconclusive, "solver unknown on assumption")
			panic(abort{"infeasible", "assumption undecided"})
		}
		m.setModel(m2)
	}
	m.addPC(c)
}

// assertProp checks c on this path; a satisfiable negation is a violation, unless every
// falsifying assignment lies inside a known-finding class registered on this path and listed
// in the committed known-findings file.
func (m *Machine) assertProp(c *Term, msg string) {
	p := m.path
	if c.IsConst() {
		if c.K == 0 {
			m.classify(m.T.True, msg, p.model)
			panic(abort{"violation", msg})
		}
		return
	}
	if p.pcSet[c.ID] {
		return
	}
	if v, ok := m.evalKnown(c); ok {
		if v == 0 {
			m.classify(m.T.True, msg, p.model)
			panic(abort{"violation", msg})
		}
		return
	}
	nc := m.T.Not(c)
	r, m2 := m.S.CheckWith(nc, m.T.Vars)
	m.maybeCross(nc, r)
	switch r {
	case Sat:
		m.classify(nc, msg, m2)
		// continue under the assumption that it held, if that is still possible
		if m.evalModel(c) == 0 {
			r2, m3 := m.S.CheckWith(c, m.T.Vars)
			if r2 != Sat {
				panic(abort{"violation", msg})
			}
			m.setModel(m3)
		}
	case Unknown:
		p.Inconclusive = append(p.Inconclusive, "solver unknown on assertion: "+msg)
	}
	m.addPC(c)
}

// classify records a falsifying model of an assertion (bad = the negated assertion, already
// known satisfiable with model) either as a violation or as hits of known-finding classes.
func (m *Machine) classify(bad *Term, msg string, model map[string]uint64) {
	p := m.path
	var active []knownClass
	for _, k := range p.classes {
		if m.KnownListed[k.id] {
			active = append(active, k)
		}
	}
	if len(active) == 0 {
		m.recordViolation(msg, model, "")
		return
	}
	union := m.T.False
	for _, k := range active {
		union = m.T.Or(union, k.pred)
	}
	outside := m.T.And(bad, m.T.Not(union))
	if outside.IsConst() {
		if outside.K != 0 {
			m.recordViolation(msg, model, "")
			return
		}
	} else {
		r, m3 := m.S.CheckWith(outside, m.T.Vars)
		switch r {
		case Sat:
			m.recordViolation(msg, m3, "")
			return
		case Unknown:
			p.Inconclusive = append(p.Inconclusive, "solver unknown while separating known-finding class: "+msg)
			return
		}
	}
	// every falsifying assignment is inside a listed class: report which
	for _, k := range active {
		in := m.T.And(bad, k.pred)
		if in.IsConst() {
			if in.K != 0 {
				m.recordViolation(msg, model, k.id)
			}
			continue
		}
		if Eval(in, model, map[int]uint64{}) != 0 {
			m.recordViolation(msg, model, k.id)
			continue
		}
		if r, m4 := m.S.CheckWith(in, m.T.Vars); r == Sat {
			m.recordViolation(msg, m4, k.id)
		}
	}
}

func (m *Machine) recordViolation(msg string, model map[string]uint64, known string) {
	p := m.path
	v := Violation{Msg: msg, Model: model, Inputs: map[string]string{}, Path: decisionString(p.taken), Known: known}
	for _, in := range p.inputs {
		v.Inputs[in.name] = renderInput(in, model)
	}
	v.Case = m.pathCase(p, "", model)
	v.Case.End = "assert"
	v.Case.Msg = msg
	if known != "" {
		p.KnownHits = append(p.KnownHits, v)
		return
	}
	p.Violations = append(p.Violations, v)
}

func renderInput(in inputVar, model map[string]uint64) string {
	memo := map[int]uint64{}
	switch in.kind {
	case "str":
		b := make([]byte, len(in.terms))
		for i, t := range in.terms {
			b[i] = byte(Eval(t, model, memo))
		}
		return fmt.Sprintf("%q", string(b))
	case "bool":
		return fmt.Sprint(Eval(in.terms[0], model, memo) != 0)
	default:
		t := in.terms[0]
		return fmt.Sprint(sext(Eval(t, model, memo), t.W))
	}
}

func decisionString(ds []Decision) string {
	var sb strings.Builder
	for _, d := range ds {
		sb.WriteString(d.String())
	}
	return sb.String()
}

// ---- symbolic inputs ----

func (m *Machine) symString(name string, max int) Str {
	p := m.path
	lv := m.T.Var(name+"!len", 64)
	m.assume(m.T.Bin(OpUle, lv, m.T.Const(64, uint64(max))))
	n := int(m.concretize(lv))
	bs := make([]*Term, n)
	for i := range bs {
		bs[i] = m.T.Var(fmt.Sprintf("%s!%d", name, i), 8)
	}
	p.inputs = append(p.inputs, inputVar{name: name, kind: "str", terms: append([]*Term(nil), bs...)})
	if n == 0 {
		return Str{}
	}
	return Str{b: bs}
}

func (m *Machine) symInt(name string, w int, kind string) *Term {
	v := m.T.Var(name, w)
	m.path.inputs = append(m.path.inputs, inputVar{name: name, kind: kind, terms: []*Term{v}})
	return v
}
