package sym

import (
	"fmt"
	"os"
	"runtime"
	"sort"
	"strings"
	"sync"
	"time"

	"golang.org/x/tools/go/ssa"
)

// ---- exploration ----

// Case is one concrete execution of a harness entry: inputs under a model, and what the
// engine predicts the real code does on them. It is what native replay consumes.
type Case struct {
	Entry   string            `json:"entry"`
	Params  map[string]int64  `json:"params,omitempty"`
	Strs    map[string][]byte `json:"strs,omitempty"`
	Ints    map[string]uint64 `json:"ints,omitempty"`
	Choices []uint64          `json:"choices,omitempty"`
	Obs     []Obs             `json:"obs,omitempty"`
	End     string            `json:"end"` // "ok", "assert", "panic"
	Msg     string            `json:"msg,omitempty"`
	Path    string            `json:"path,omitempty"`
}

// Obs is one observed output.
type Obs struct {
	Label string `json:"label"`
	Val   string `json:"val"` // %q for strings, decimal for ints, true/false
}

// Report summarises an exploration.
type Report struct {
	Entry        string
	Paths        int
	Nontrivial   int
	Ended        map[string]int
	Violations   []Violation
	Known        []Violation
	Inconclusive []string
	Covers       map[string]int
	MaxDecisions int
	Decisions    int64
	Samples      []string
	Cases        []Case // sampled paths for differential validation
	Assumes      int64
	Steps        int64
	Wall         time.Duration

	Queries, Sat, Unsat, Unknown, Errors      int
	SolveTime                                 time.Duration
	FuncHits                                  map[string]int64
	CrossChecked, CrossAgreed, CrossUndecided int
	IntrHits                                  map[string]int64
	SkippedInits                              map[string]bool
}

// Config describes one exploration.
type Config struct {
	Prog        *ssa.Program
	Pkg         *ssa.Package
	Entry       string
	Workers     int
	MaxPaths    int
	Deadline    time.Time
	Params      map[string]int64
	KnownListed map[string]bool
	SolverArgv  []string
	StepBudget  int64
	// BudgetIsViolation: exceeding the step budget on a path is reported as a violation
	// ("does not terminate promptly") instead of as an exhausted bound
	BudgetIsViolation bool
	SampleCases       int // how many paths to keep as Cases
	InitAllow         func(string) bool
	ZeroOK            func(string) bool
	Trace             bool
	MaxViol           int // stop collecting after this many violations (0 = 50)
	QueryLog          func(worker int) interface{ Write([]byte) (int, error) }
	StopOnViol        bool
	Witness           bool
	CrossEvery        int
	Tolerant          func(string) bool
	Stubs             map[string]string // function full name -> harness function name (same package as Entry)
}

type sharedWork struct {
	mu       sync.Mutex
	cond     *sync.Cond
	stack    []Work
	active   int
	stopped  bool
	paths    int
	overflow string
}

func (sw *sharedWork) pop(cfg *Config) (Work, bool) {
	sw.mu.Lock()
	defer sw.mu.Unlock()
	for {
		if sw.stopped {
			return Work{}, false
		}
		if len(sw.stack) > 0 {
			if cfg.MaxPaths > 0 && sw.paths >= cfg.MaxPaths {
				sw.overflow = fmt.Sprintf("BOUND-EXCEEDED: path budget %d exhausted with %d pending", cfg.MaxPaths, len(sw.stack))
				sw.stopped = true
				sw.cond.Broadcast()
				return Work{}, false
			}
			if !cfg.Deadline.IsZero() && time.Now().After(cfg.Deadline) {
				sw.overflow = fmt.Sprintf("BOUND-EXCEEDED: wall-clock budget exhausted with %d paths pending after %d paths", len(sw.stack), sw.paths)
				sw.stopped = true
				sw.cond.Broadcast()
				return Work{}, false
			}
			w := sw.stack[len(sw.stack)-1]
			sw.stack = sw.stack[:len(sw.stack)-1]
			sw.active++
			sw.paths++
			return w, true
		}
		if sw.active == 0 {
			sw.stopped = true
			sw.cond.Broadcast()
			return Work{}, false
		}
		sw.cond.Wait()
	}
}

func (sw *sharedWork) done(forks []Work) {
	sw.mu.Lock()
	sw.stack = append(sw.stack, forks...)
	sw.active--
	sw.mu.Unlock()
	sw.cond.Broadcast()
}

// Explore runs cfg.Entry on every feasible path with cfg.Workers parallel interpreters.
func Explore(cfg *Config) (*Report, error) {
	t0 := time.Now()
	fn := cfg.Pkg.Func(cfg.Entry)
	if fn == nil {
		return nil, fmt.Errorf("no entry function %s in %s", cfg.Entry, cfg.Pkg.Pkg.Path())
	}
	if cfg.Workers < 1 {
		cfg.Workers = 1
	}
	sw := &sharedWork{stack: []Work{{Model: map[string]uint64{}}}}
	sw.cond = sync.NewCond(&sw.mu)
	reports := make([]*Report, cfg.Workers)
	errs := make([]error, cfg.Workers)
	var wg sync.WaitGroup
	for wi := 0; wi < cfg.Workers; wi++ {
		wg.Add(1)
		go func(wi int) {
			defer wg.Done()
			rep := &Report{Ended: map[string]int{}, Covers: map[string]int{}}
			reports[wi] = rep
			solver, err := NewSolver(cfg.SolverArgv...)
			if err != nil {
				errs[wi] = err
				sw.mu.Lock()
				sw.stopped = true
				sw.mu.Unlock()
				sw.cond.Broadcast()
				return
			}
			defer solver.Close()
			if cfg.QueryLog != nil {
				solver.Log = cfg.QueryLog(wi)
			}
			m := NewMachine(cfg.Prog, solver)
			m.InitAllow = cfg.InitAllow
			m.ZeroGlobalsOK = cfg.ZeroOK
			m.Params = cfg.Params
			m.KnownListed = cfg.KnownListed
			m.Trace = cfg.Trace
			m.Witness = cfg.Witness
			m.CrossEvery = cfg.CrossEvery
			if os.Getenv("SYMGO_DECIDE_PROFILE") != "" {
				m.DecideProfile = map[string]int64{}
			}
			m.TolerantInit = cfg.Tolerant
			m.NoopPkgs = func(p string) bool { return p == "log/slog" || p == "log" }
			if len(cfg.Stubs) > 0 {
				m.Stubs = map[string]*ssa.Function{}
				for k, v := range cfg.Stubs {
					if f := cfg.Pkg.Func(v); f != nil {
						m.Stubs[k] = f
					} else {
						errs[wi] = fmt.Errorf("stub function %s not found", v)
					}
				}
			}
			m.BudgetIsViolation = cfg.BudgetIsViolation
			if cfg.StepBudget > 0 {
				m.StepBudget = cfg.StepBudget
			}
			func() {
				defer func() {
					if r := recover(); r != nil {
						errs[wi] = fmt.Errorf("package initialisation failed: %v", r)
					}
				}()
				m.InitPackage(cfg.Pkg)
			}()
			if errs[wi] != nil {
				sw.mu.Lock()
				sw.stopped = true
				sw.mu.Unlock()
				sw.cond.Broadcast()
				return
			}
			m.journaling = true
			seenInc := map[string]bool{}
			for {
				w, ok := sw.pop(cfg)
				if !ok {
					break
				}
				p := m.runPath(w, func() { m.Call(fn) })
				rep.Paths++
				if os.Getenv("SYMGO_DUMP_PATHS") != "" {
					fmt.Fprintf(os.Stderr, "PATH %s %s\n", p.End, decisionString(p.taken))
				}
				rep.Steps += m.Steps
				rep.Assumes += int64(p.assumes)
				rep.Decisions += int64(len(p.taken))
				if len(p.taken) > 0 {
					rep.Nontrivial++
				}
				if len(p.taken) > rep.MaxDecisions {
					rep.MaxDecisions = len(p.taken)
				}
				rep.Ended[p.End]++
				for k, v := range p.covers {
					rep.Covers[k] += v
				}
				rep.Violations = append(rep.Violations, p.Violations...)
				rep.Known = append(rep.Known, p.KnownHits...)
				for _, s := range p.Inconclusive {
					if !seenInc[s] {
						seenInc[s] = true
						rep.Inconclusive = append(rep.Inconclusive, s)
					}
				}
				if len(rep.Samples) < 3 && len(p.pc) > 0 {
					rep.Samples = append(rep.Samples, samplePC(p))
				}
				if cfg.SampleCases > 0 && (p.End == "ok") && len(p.Violations) == 0 && len(p.KnownHits) == 0 {
					// keep a spread of cases: reservoir-free, deterministic thinning
					if len(rep.Cases) < cfg.SampleCases || rep.Paths%(1+rep.Paths/cfg.SampleCases) == 0 {
						c := m.pathCase(p, cfg.Entry, p.model)
						c.End = "ok"
						if len(rep.Cases) < cfg.SampleCases {
							rep.Cases = append(rep.Cases, c)
						} else {
							rep.Cases[rep.Paths%cfg.SampleCases] = c
						}
					}
				}
				stop := false
				mv := cfg.MaxViol
				if mv == 0 {
					mv = 50
				}
				if cfg.Witness {
					mv = 1 << 30
				}
				if len(rep.Violations) >= mv || (cfg.StopOnViol && len(rep.Violations) > 0) {
					stop = true
				}
				sw.done(p.forks)
				if stop {
					sw.mu.Lock()
					sw.stopped = true
					if sw.overflow == "" && len(sw.stack) > 0 {
						sw.overflow = "exploration stopped early after violations"
					}
					sw.mu.Unlock()
					sw.cond.Broadcast()
					break
				}
			}
			rep.Queries, rep.Sat, rep.Unsat, rep.Unknown, rep.Errors = solver.Queries, solver.Sat, solver.Unsat, solver.Unknown, solver.Errors
			rep.SolveTime = solver.SolveTime + solver.ModelTime
			rep.FuncHits = m.FuncHits
			rep.IntrHits = m.IntrHits
			rep.SkippedInits = m.SkippedInits
			rep.CrossChecked, rep.CrossAgreed, rep.CrossUndecided = m.CrossChecked, m.CrossAgreed, m.CrossUndecided
			for k, v := range m.DecideProfile {
				rep.IntrHits["decide@"+k] += v
			}
			if solver.Errors > 0 {
				rep.Inconclusive = append(rep.Inconclusive, fmt.Sprintf("solver printed %d (error lines", solver.Errors))
			}
		}(wi)
	}
	wg.Wait()
	for _, e := range errs {
		if e != nil {
			return nil, e
		}
	}
	tot := &Report{Entry: cfg.Entry, Ended: map[string]int{}, Covers: map[string]int{}, FuncHits: map[string]int64{}, IntrHits: map[string]int64{}, SkippedInits: map[string]bool{}}
	seenInc := map[string]bool{}
	for _, r := range reports {
		tot.Paths += r.Paths
		tot.Nontrivial += r.Nontrivial
		tot.Steps += r.Steps
		tot.Assumes += r.Assumes
		tot.Decisions += r.Decisions
		if r.MaxDecisions > tot.MaxDecisions {
			tot.MaxDecisions = r.MaxDecisions
		}
		for k, v := range r.Ended {
			tot.Ended[k] += v
		}
		for k, v := range r.Covers {
			tot.Covers[k] += v
		}
		tot.Violations = append(tot.Violations, r.Violations...)
		tot.Known = append(tot.Known, r.Known...)
		for _, s := range r.Inconclusive {
			if !seenInc[s] {
				seenInc[s] = true
				tot.Inconclusive = append(tot.Inconclusive, s)
			}
		}
		if len(tot.Samples) < 4 {
			tot.Samples = append(tot.Samples, r.Samples...)
		}
		tot.Cases = append(tot.Cases, r.Cases...)
		tot.Queries += r.Queries
		tot.Sat += r.Sat
		tot.Unsat += r.Unsat
		tot.Unknown += r.Unknown
		tot.Errors += r.Errors
		tot.SolveTime += r.SolveTime
		tot.CrossChecked += r.CrossChecked
		tot.CrossAgreed += r.CrossAgreed
		tot.CrossUndecided += r.CrossUndecided
		for k, v := range r.FuncHits {
			tot.FuncHits[k] += v
		}
		for k, v := range r.IntrHits {
			tot.IntrHits[k] += v
		}
		for k := range r.SkippedInits {
			tot.SkippedInits[k] = true
		}
	}
	if sw.overflow != "" {
		tot.Inconclusive = append(tot.Inconclusive, sw.overflow)
	}
	if cfg.SampleCases > 0 && len(tot.Cases) > cfg.SampleCases {
		// thin deterministically
		step := float64(len(tot.Cases)) / float64(cfg.SampleCases)
		var keep []Case
		for i := 0; i < cfg.SampleCases; i++ {
			keep = append(keep, tot.Cases[int(float64(i)*step)])
		}
		tot.Cases = keep
	}
	sort.Strings(tot.Inconclusive)
	tot.Wall = time.Since(t0)
	return tot, nil
}

func samplePC(p *Path) string {
	var cs []string
	for _, c := range p.pc {
		s := c.String()
		if len(s) > 100 {
			s = s[:100] + "…"
		}
		cs = append(cs, s)
		if len(cs) >= 6 {
			break
		}
	}
	return strings.Join(cs, " ∧ ")
}

// pathCase renders the inputs of the current path under model.
func (m *Machine) pathCase(p *Path, entry string, model map[string]uint64) Case {
	c := Case{Entry: entry, Params: m.Params, Strs: map[string][]byte{}, Ints: map[string]uint64{}, Path: decisionString(p.taken)}
	memo := map[int]uint64{}
	for _, in := range p.inputs {
		switch in.kind {
		case "str":
			b := make([]byte, len(in.terms))
			for i, t := range in.terms {
				b[i] = byte(Eval(t, model, memo))
			}
			c.Strs[in.name] = b
		default:
			c.Ints[in.name] = Eval(in.terms[0], model, memo)
		}
	}
	for _, ch := range p.choices {
		c.Choices = append(c.Choices, Eval(ch, model, memo))
	}
	for _, o := range p.obs {
		c.Obs = append(c.Obs, Obs{Label: o.label, Val: m.renderObs(o.val, model, memo)})
	}
	return c
}

func (m *Machine) renderObs(v value, model map[string]uint64, memo map[int]uint64) string {
	switch v := v.(type) {
	case Str:
		bs := m.strBytes(v)
		b := make([]byte, len(bs))
		for i, t := range bs {
			b[i] = byte(Eval(t, model, memo))
		}
		return fmt.Sprintf("%q", string(b))
	case *Term:
		x := Eval(v, model, memo)
		if v.W == 0 {
			return fmt.Sprint(x != 0)
		}
		return fmt.Sprint(x)
	case []value:
		b := make([]byte, len(v))
		for i, e := range v {
			b[i] = byte(Eval(e.(*Term), model, memo))
		}
		return fmt.Sprintf("%q", string(b))
	}
	return fmt.Sprintf("?%T", v)
}

func (m *Machine) runPath(w Work, entry func()) (p *Path) {
	p = &Path{prefix: w.Prefix, pcSet: map[int]bool{}, model: w.Model, covers: map[string]int{}, MapOrderNondet: true}
	m.path = p
	m.Steps = 0
	m.depth = 0
	m.S.Reset()
	m.S.Push()
	defer func() {
		r := recover()
		m.killGoroutines()
		m.undoAll()
		m.path = nil
		if r != nil {
			switch r := r.(type) {
			case abort:
				p.End = r.kind
				switch {
				case r.kind == "deadlock" || (r.kind == "crash" && !strings.HasPrefix(r.msg, "abort:")):
					m.path = p
					m.recordViolation(r.kind+": "+r.msg, p.model, "")
					m.path = nil
				case r.kind == "bound" && r.msg == "step budget exceeded" && m.BudgetIsViolation:
					m.path = p
					m.recordViolation(fmt.Sprintf("does not terminate promptly: still running after %d interpreter steps", m.StepBudget), p.model, "")
					p.Violations[len(p.Violations)-1].Case.End = "timeout"
					m.path = nil
				case r.kind == "crash":
					p.Inconclusive = append(p.Inconclusive, strings.TrimPrefix(r.msg, "abort:"))
				case r.kind != "infeasible" && r.kind != "violation":
					p.Inconclusive = append(p.Inconclusive, r.kind+": "+r.msg)
				}
			case targetPanic:
				p.End = "panic"
				m.path = p
				m.recordViolation("uncaught panic: "+showValue(r.v), p.model, "")
				p.Violations[len(p.Violations)-1].Case.End = "panic"
				m.path = nil
			default:
				// a Go-level panic inside the interpreter: an engine defect or an unmodelled
				// value shape; the path is inconclusive, never a pass
				p.End = "engine"
				buf := make([]byte, 1<<16)
				buf = buf[:runtime.Stack(buf, false)]
				p.Inconclusive = append(p.Inconclusive, fmt.Sprintf("engine: internal error: %v", r))
				if m.Trace {
					fmt.Fprintf(os.Stderr, "engine panic: %v\n%s\n", r, buf)
				}
			}
		}
	}()
	entry()
	p.End = "ok"
	return p
}
