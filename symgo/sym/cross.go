package sym

import (
	"bytes"
	"fmt"
	"os/exec"
	"strings"
	"time"
)

// Cross-solver check: a sample of assertion queries (path condition ∧ ¬assertion) is written
// as a stand-alone SMT-LIB script and given to independent solvers; their verdict must equal
// the primary solver's.

var crossSolvers = [][]string{{"z3-new", "-in", "-T:20"}, {"cvc5", "--lang=smt2", "--tlimit=20000"}}

// standaloneScript serialises the conjunction of terms.
func standaloneScript(terms []*Term) string {
	var sb strings.Builder
	sb.WriteString("(set-logic QF_BV)\n")
	seen := map[int]bool{}
	var declare func(t *Term)
	declare = func(t *Term) {
		if seen[t.ID] {
			return
		}
		seen[t.ID] = true
		if t.Op == OpVar {
			fmt.Fprintf(&sb, "(declare-const %s %s)\n", t.Name, sortOf(t.W))
			return
		}
		for _, a := range t.Args {
			declare(a)
		}
	}
	for _, t := range terms {
		declare(t)
	}
	// shared sub-terms become define-funs in dependency order (a one-shot script, so the cost
	// of global definitions that matters for the incremental pipe does not apply)
	defined := map[int]bool{}
	var def func(t *Term)
	def = func(t *Term) {
		if t.Op == OpConst || t.Op == OpVar || defined[t.ID] {
			return
		}
		defined[t.ID] = true
		for _, a := range t.Args {
			def(a)
		}
		fmt.Fprintf(&sb, "(define-fun n%d () %s %s)\n", t.ID, sortOf(t.W), smtDef(t))
	}
	for _, t := range terms {
		def(t)
		fmt.Fprintf(&sb, "(assert %s)\n", smtRef(t))
	}
	sb.WriteString("(check-sat)\n")
	return sb.String()
}

func runSolverOnce(argv []string, script string) string {
	cmd := exec.Command(argv[0], argv[1:]...)
	cmd.Stdin = strings.NewReader(script)
	var out bytes.Buffer
	cmd.Stdout = &out
	cmd.Stderr = &out
	done := make(chan error, 1)
	if err := cmd.Start(); err != nil {
		return "error: " + err.Error()
	}
	go func() { done <- cmd.Wait() }()
	select {
	case <-done:
	case <-time.After(30 * time.Second):
		cmd.Process.Kill()
		return "timeout"
	}
	for _, line := range strings.Split(out.String(), "\n") {
		line = strings.TrimSpace(line)
		if line == "sat" || line == "unsat" || line == "unknown" {
			return line
		}
	}
	return "error: " + strings.TrimSpace(out.String())
}

// maybeCross samples the primary solver's decided queries (assertion queries and the branch
// feasibility queries whose unsat verdict prunes a path): the 8th of each worker and then every
// CrossEvery-th one is re-decided by the other solvers.
func (m *Machine) maybeCross(extra *Term, r Result) {
	if m.CrossEvery <= 0 || r == Unknown {
		return
	}
	m.crossCount++
	if m.crossCount == 8 || m.crossCount%m.CrossEvery == 0 {
		m.crossCheck(extra, r)
	}
}

// crossCheck re-decides pc ∧ extra with the independent solvers.
func (m *Machine) crossCheck(extra *Term, primary Result) {
	p := m.path
	terms := append(append([]*Term(nil), p.pc...), extra)
	script := standaloneScript(terms)
	for _, argv := range crossSolvers {
		got := runSolverOnce(argv, script)
		m.CrossChecked++
		switch {
		case got == primary.String():
			m.CrossAgreed++
		case got == "unknown" || got == "timeout" || strings.Contains(got, "interrupted by timeout") || strings.Contains(got, "resource limit"):
			m.CrossUndecided++
		default:
			p.Inconclusive = append(p.Inconclusive, fmt.Sprintf("CROSS-SOLVER-DISAGREEMENT: z3 4.8.12 says %s, %s says %s", primary, argv[0], got))
		}
	}
}
