package sym

import (
	"bufio"
	"fmt"
	"io"
	"os/exec"
	"strconv"
	"strings"
	"time"
)

// Solver drives one long-lived SMT solver process over a pipe.
type Solver struct {
	cmd     *exec.Cmd
	in      *bufio.Writer
	out     *bufio.Reader
	defined map[int]bool // term ids with a define-fun emitted (global declarations)
	depth   int

	Queries   int
	Sat       int
	Unsat     int
	Unknown   int
	Errors    int
	SolveTime time.Duration
	ModelTime time.Duration
	Log       io.Writer // optional transcript
}

func NewSolver(argv ...string) (*Solver, error) {
	if len(argv) == 0 {
		argv = []string{"z3", "-in"}
	}
	cmd := exec.Command(argv[0], argv[1:]...)
	stdin, err := cmd.StdinPipe()
	if err != nil {
		return nil, err
	}
	stdout, err := cmd.StdoutPipe()
	if err != nil {
		return nil, err
	}
	cmd.Stderr = cmd.Stdout
	if err := cmd.Start(); err != nil {
		return nil, err
	}
	s := &Solver{cmd: cmd, in: bufio.NewWriterSize(stdin, 1<<16), out: bufio.NewReaderSize(stdout, 1<<16), defined: map[int]bool{}}
	s.send("(set-option :print-success false)")
	s.send("(set-option :global-decls true)")
	s.send("(set-option :timeout 10000)")
	return s, nil
}

func (s *Solver) Close() {
	s.send("(exit)")
	s.in.Flush()
	_ = s.cmd.Wait()
}

func (s *Solver) send(line string) {
	if s.Log != nil {
		fmt.Fprintln(s.Log, line)
	}
	s.in.WriteString(line)
	s.in.WriteByte('\n')
}

// declare makes sure every variable of t is declared.
// Non-leaf terms are not given global names (z3 re-evaluates every global definition when it
// builds a model, which made get-value cost ~100 ms); instead each assertion is printed as one
// expression with let-bindings for its shared sub-terms.
func (s *Solver) termText(t *Term) string {
	if t.Op == OpConst {
		return constLit(t)
	}
	// count references within this DAG
	refs := map[int]int{}
	var order []*Term // post-order
	var visit func(t *Term)
	stack := []*Term{t}
	seen := map[int]bool{}
	// iterative post-order
	type item struct {
		t    *Term
		done bool
	}
	st := []item{{t, false}}
	_ = visit
	_ = stack
	for len(st) > 0 {
		it := st[len(st)-1]
		st = st[:len(st)-1]
		if it.t.Op == OpConst {
			continue
		}
		if it.done {
			order = append(order, it.t)
			continue
		}
		refs[it.t.ID]++
		if seen[it.t.ID] {
			continue
		}
		seen[it.t.ID] = true
		if it.t.Op == OpVar {
			if !s.defined[it.t.ID] {
				s.send(fmt.Sprintf("(declare-const %s %s)", it.t.Name, sortOf(it.t.W)))
				s.defined[it.t.ID] = true
			}
			continue
		}
		st = append(st, item{it.t, true})
		for _, a := range it.t.Args {
			st = append(st, item{a, false})
		}
	}
	named := map[int]bool{}
	var sb strings.Builder
	var expr func(t *Term) string
	expr = func(t *Term) string {
		switch t.Op {
		case OpConst:
			return constLit(t)
		case OpVar:
			return t.Name
		}
		if named[t.ID] {
			return fmt.Sprintf("n%d", t.ID)
		}
		var b strings.Builder
		switch t.Op {
		case OpZExt:
			fmt.Fprintf(&b, "((_ zero_extend %d) %s)", t.K, expr(t.Args[0]))
		case OpSExt:
			fmt.Fprintf(&b, "((_ sign_extend %d) %s)", t.K, expr(t.Args[0]))
		case OpExtract:
			fmt.Fprintf(&b, "((_ extract %d %d) %s)", t.K>>8, t.K&0xff, expr(t.Args[0]))
		default:
			b.WriteByte('(')
			b.WriteString(opNames[t.Op])
			for _, a := range t.Args {
				b.WriteByte(' ')
				b.WriteString(expr(a))
			}
			b.WriteByte(')')
		}
		return b.String()
	}
	nlets := 0
	for _, n := range order {
		if refs[n.ID] > 1 && n != t {
			fmt.Fprintf(&sb, "(let ((n%d %s)) ", n.ID, expr(n))
			named[n.ID] = true
			nlets++
		}
	}
	sb.WriteString(expr(t))
	for i := 0; i < nlets; i++ {
		sb.WriteByte(')')
	}
	return sb.String()
}

func (s *Solver) Push() { s.send("(push 1)"); s.depth++ }
func (s *Solver) Pop()  { s.send("(pop 1)"); s.depth-- }

// Reset pops every scope.
func (s *Solver) Reset() {
	for s.depth > 0 {
		s.Pop()
	}
}

func (s *Solver) Assert(t *Term) {
	s.send("(assert " + s.termText(t) + ")")
}

// Result of a check.
type Result int

const (
	Unsat Result = iota
	Sat
	Unknown
)

func (r Result) String() string { return [...]string{"unsat", "sat", "unknown"}[r] }

// Check runs check-sat on the current assertion stack.
func (s *Solver) Check() Result {
	t0 := time.Now()
	s.send("(check-sat)")
	s.in.Flush()
	line := s.readLine()
	s.SolveTime += time.Since(t0)
	s.Queries++
	switch line {
	case "sat":
		s.Sat++
		return Sat
	case "unsat":
		s.Unsat++
		return Unsat
	}
	if strings.HasPrefix(line, "(error") {
		s.Errors++
	}
	s.Unknown++
	return Unknown
}

// CheckWith checks the current stack plus extra, inside its own scope.
// If the answer is sat and vars is non-nil, it returns a model for vars.
func (s *Solver) CheckWith(extra *Term, vars []*Term) (Result, map[string]uint64) {
	s.Push()
	s.Assert(extra)
	r := s.Check()
	var m map[string]uint64
	if r == Sat && vars != nil {
		m = s.Model(vars)
	}
	s.Pop()
	return r, m
}

func (s *Solver) readLine() string {
	for {
		line, err := s.out.ReadString('\n')
		if err != nil {
			return "(error \"solver died: " + err.Error() + "\")"
		}
		line = strings.TrimSpace(line)
		if line == "" {
			continue
		}
		if s.Log != nil {
			fmt.Fprintln(s.Log, "; <- "+line)
		}
		return line
	}
}

// Model fetches values of the given variables after a sat answer.
func (s *Solver) Model(vars []*Term) map[string]uint64 {
	m := map[string]uint64{}
	if len(vars) == 0 {
		return m
	}
	var sb strings.Builder
	sb.WriteString("(get-value (")
	n := 0
	for _, v := range vars {
		if !s.defined[v.ID] {
			continue // never sent to the solver: unconstrained, value 0
		}
		sb.WriteString(v.Name)
		sb.WriteByte(' ')
		n++
	}
	sb.WriteString("))")
	if n == 0 {
		return m
	}
	t0 := time.Now()
	defer func() { s.ModelTime += time.Since(t0) }()
	s.send(sb.String())
	s.in.Flush()
	// response: ((a #x00) (b true) ...), possibly over several lines
	var resp strings.Builder
	depth := 0
	started := false
	for {
		line := s.readLine()
		resp.WriteString(line)
		resp.WriteByte(' ')
		for _, c := range line {
			if c == '(' {
				depth++
				started = true
			} else if c == ')' {
				depth--
			}
		}
		if started && depth <= 0 {
			break
		}
		if strings.HasPrefix(line, "(error") {
			s.Errors++
			break
		}
	}
	toks := strings.Fields(strings.NewReplacer("(", " ", ")", " ").Replace(resp.String()))
	for i := 0; i+1 < len(toks); i += 2 {
		name, val := toks[i], toks[i+1]
		switch {
		case val == "true":
			m[name] = 1
		case val == "false":
			m[name] = 0
		case strings.HasPrefix(val, "#x"):
			u, _ := strconv.ParseUint(val[2:], 16, 64)
			m[name] = u
		case strings.HasPrefix(val, "#b"):
			u, _ := strconv.ParseUint(val[2:], 2, 64)
			m[name] = u
		}
	}
	return m
}
