package sym

import (
	"fmt"
	"go/token"
	"go/types"
	"math"
	"reflect"
	"strconv"
	"strings"

	"golang.org/x/tools/go/ssa"
)

// poison marks a value that a tolerant package initialisation could not compute.
type poison struct{ why string }

// callMethod calls the exported method name on the dynamic value of recv.
func (m *Machine) callMethod(fr *frame, recv iface, name string, args ...value) value {
	if recv.t == nil {
		panic(rtPanic("invalid memory address or nil pointer dereference (method call on nil interface)"))
	}
	f := m.Prog.LookupMethod(recv.t, nil, name)
	if f == nil {
		panic(abort{"engine", "no method " + name + " on " + recv.t.String()})
	}
	all := append([]value{recv.v}, args...)
	return m.call(fr, token.NoPos, f, all)
}

func hasMethod(t types.Type, name string) bool {
	if t == nil {
		return false
	}
	ms := types.NewMethodSet(t)
	for i := 0; i < ms.Len(); i++ {
		if ms.At(i).Obj().Name() == name && ms.At(i).Obj().Exported() {
			return true
		}
	}
	return false
}

func (m *Machine) bytesToValues(bs []*Term) []value {
	out := make([]value, len(bs))
	for i, b := range bs {
		out[i] = b
	}
	return out
}

func valuesToBytes(vs []value) []*Term {
	out := make([]*Term, len(vs))
	for i, v := range vs {
		out[i] = v.(*Term)
	}
	return out
}

// ---- fmt ----

// fmtValue renders v (of dynamic type t) for verbs %v and %s.
func (m *Machine) fmtValue(fr *frame, v value, t types.Type, verb byte, lenient bool) Str {
	if t == nil {
		if verb == 's' {
			return conc("%!s(<nil>)")
		}
		return conc("<nil>")
	}
	if verb != 'T' && verb != 'd' && verb != 'x' && verb != 'X' {
		if hasMethod(t, "Error") {
			if p, ok := v.(*value); ok && p == nil {
				return conc("<nil>")
			}
			return m.callMethod(fr, iface{t, v}, "Error").(Str)
		}
		if hasMethod(t, "String") {
			if p, ok := v.(*value); ok && p == nil {
				return conc("<nil>")
			}
			return m.callMethod(fr, iface{t, v}, "String").(Str)
		}
	}
	switch u := t.Underlying().(type) {
	case *types.Basic:
		switch {
		case u.Info()&types.IsString != 0:
			return v.(Str)
		case u.Info()&types.IsBoolean != 0:
			if m.decide(v.(*Term)) {
				return conc("true")
			}
			return conc("false")
		case u.Info()&types.IsInteger != 0:
			x := v.(*Term)
			c := m.concretize(x)
			if isSigned(u) {
				return conc(strconv.FormatInt(sext(c, x.W), 10))
			}
			return conc(strconv.FormatUint(c, 10))
		case u.Info()&types.IsFloat != 0:
			return conc(fmt.Sprint(v.(float64)))
		}
	case *types.Slice:
		if b, ok := u.Elem().Underlying().(*types.Basic); ok && b.Kind() == types.Uint8 && verb == 's' {
			return m.mkStr(valuesToBytes(v.([]value)))
		}
		// [a b c]
		parts := []Str{conc("[")}
		for i, e := range v.([]value) {
			if i > 0 {
				parts = append(parts, conc(" "))
			}
			et := u.Elem()
			ev := e
			if itf, ok := e.(iface); ok {
				et, ev = itf.t, itf.v
			}
			parts = append(parts, m.fmtValue(fr, ev, et, verb, lenient))
		}
		parts = append(parts, conc("]"))
		out := Str{}
		for _, p := range parts {
			out = m.strConcat(out, p)
		}
		return out
	case *types.Interface:
		itf := v.(iface)
		return m.fmtValue(fr, itf.v, itf.t, verb, lenient)
	case *types.Struct:
		// {f1 f2 ...}: fields are printed without consulting their methods when unexported;
		// only plain %v of exported-field structs is modelled
		if verb != 'v' {
			break
		}
		out := conc("{")
		for i, fv := range v.(structure) {
			if !u.Field(i).Exported() {
				panic(unsupported("fmt model: struct with unexported field " + t.String()))
			}
			if i > 0 {
				out = m.strConcat(out, conc(" "))
			}
			ft := u.Field(i).Type()
			ev := fv
			if itf, ok := fv.(iface); ok {
				ft, ev = itf.t, itf.v
			}
			out = m.strConcat(out, m.fmtValue(fr, ev, ft, 'v', lenient))
		}
		return m.strConcat(out, conc("}"))
	case *types.Pointer:
		if lenient {
			return conc("0xc000000000")
		}
	}
	if lenient {
		return conc("<" + t.String() + ">")
	}
	panic(unsupported("fmt model: value of type " + t.String() + " with %" + string(verb)))
}

// sprintf interprets a (concrete) format string.
func (m *Machine) sprintf(fr *frame, format Str, args []value, lenient bool) (Str, []iface) {
	if !format.Concrete() {
		if len(args) != 0 {
			panic(unsupported("fmt model: symbolic format string with operands"))
		}
		return m.sprintfSymbolicFormat(format), nil
	}
	f := format.s
	out := Str{}
	var wrapped []iface
	argi := 0
	for i := 0; i < len(f); i++ {
		if f[i] != '%' {
			j := i
			for j < len(f) && f[j] != '%' {
				j++
			}
			out = m.strConcat(out, conc(f[i:j]))
			i = j - 1
			continue
		}
		i++
		if i >= len(f) {
			out = m.strConcat(out, conc("%!(NOVERB)"))
			break
		}
		// flags
		flags := ""
		for i < len(f) && strings.IndexByte("+-# 0", f[i]) >= 0 {
			flags += string(f[i])
			i++
		}
		width := ""
		for i < len(f) && f[i] >= '0' && f[i] <= '9' {
			width += string(f[i])
			i++
		}
		if i < len(f) && f[i] == '.' {
			panic(unsupported("fmt model: precision in " + f))
		}
		if i >= len(f) {
			break
		}
		verb := f[i]
		if verb == '%' {
			out = m.strConcat(out, conc("%"))
			continue
		}
		if argi >= len(args) {
			out = m.strConcat(out, conc("%!"+string(verb)+"(MISSING)"))
			continue
		}
		a := args[argi].(iface)
		argi++
		var piece Str
		switch verb {
		case 'v', 's':
			piece = m.fmtValue(fr, a.v, a.t, verb, lenient)
		case 'w':
			piece = m.fmtValue(fr, a.v, a.t, 'v', lenient)
			wrapped = append(wrapped, a)
		case 'q':
			var s Str
			switch {
			case a.t != nil && isString(a.t):
				s = a.v.(Str)
			case a.t != nil && hasMethod(a.t, "Error"):
				s = m.callMethod(fr, a, "Error").(Str)
			case a.t != nil && hasMethod(a.t, "String"):
				s = m.callMethod(fr, a, "String").(Str)
			case a.t != nil && isInteger(a.t):
				piece = conc(strconv.QuoteRune(rune(m.concretize(a.v.(*Term)))))
			default:
				panic(unsupported("fmt model: %q of " + fmt.Sprint(a.t)))
			}
			if piece.Len() == 0 {
				if s.Concrete() {
					piece = conc(strconv.Quote(s.s))
				} else {
					// approximation (the exact quoting depends on every byte): the raw bytes
					// between quotes; only reached for diagnostic messages, counted in evidence
					m.IntrHits["fmt:%q-of-symbolic-string-approximated"]++
					piece = m.strConcat(m.strConcat(conc(`"`), s), conc(`"`))
				}
			}
		case 'd', 'x', 'X', 'c', 'U', 'o', 'b':
			if a.t == nil || !isInteger(a.t) {
				if verb == 'x' && a.t != nil && isString(a.t) && a.v.(Str).Concrete() {
					piece = conc(fmt.Sprintf("%"+flags+width+"x", a.v.(Str).s))
					break
				}
				panic(unsupported("fmt model: %" + string(verb) + " of " + fmt.Sprint(a.t)))
			}
			x := a.v.(*Term)
			c := m.concretize(x)
			spec := "%" + flags + width + string(verb)
			if isSigned(a.t) {
				piece = conc(fmt.Sprintf(spec, sext(c, x.W)))
			} else {
				piece = conc(fmt.Sprintf(spec, c))
			}
		case 't':
			piece = m.fmtValue(fr, a.v, a.t, 'v', lenient)
		case 'T':
			if a.t == nil {
				piece = conc("<nil>")
			} else {
				piece = conc(types.TypeString(a.t, func(p *types.Package) string { return p.Name() }))
			}
		default:
			panic(unsupported("fmt model: verb %" + string(verb)))
		}
		if width != "" && (verb == 's' || verb == 'v') {
			panic(unsupported("fmt model: width with %s"))
		}
		out = m.strConcat(out, piece)
	}
	if argi < len(args) {
		out = m.strConcat(out, conc("%!(EXTRA)"))
	}
	return out, wrapped
}

// sprintfSymbolicFormat: a format string with symbolic bytes and no operands (data that found its
// way into the format position). Every byte is decided to be '%' or not (a fork per byte where
// both are feasible); "%%" is a percent sign, a '%' at the end prints %!(NOVERB), any other verb
// prints %!v(MISSING) with the verb byte; flags, width, precision, argument indexes and non-ASCII
// verbs after a symbolic '%' are not modelled (that path is inconclusive).
func (m *Machine) sprintfSymbolicFormat(format Str) Str {
	bs := m.strBytes(format)
	var out []*Term
	lit := func(s string) {
		for i := 0; i < len(s); i++ {
			out = append(out, m.T.Const(8, uint64(s[i])))
		}
	}
	is := func(b *Term, c byte) bool { return m.decide(m.T.Eq(b, m.T.Const(8, uint64(c)))) }
	for i := 0; i < len(bs); i++ {
		if !is(bs[i], '%') {
			out = append(out, bs[i])
			continue
		}
		i++
		if i >= len(bs) {
			lit("%!(NOVERB)")
			break
		}
		v := bs[i]
		if is(v, '%') {
			lit("%")
			continue
		}
		for _, c := range []byte("+-# 0123456789.*[") {
			if is(v, c) {
				panic(unsupported("fmt model: flags, width, precision or argument index in a symbolic format string"))
			}
		}
		if m.decide(m.T.Bin(OpUlt, m.T.Const(8, 0x7f), v)) {
			panic(unsupported("fmt model: non-ASCII verb in a symbolic format string"))
		}
		lit("%!")
		out = append(out, v)
		lit("(MISSING)")
	}
	return m.mkStr(out)
}

func (m *Machine) sprint(fr *frame, args []value, ln bool) Str {
	out := Str{}
	prevString := true
	for i, av := range args {
		a := av.(iface)
		isStr := a.t != nil && isString(a.t)
		if i > 0 && (ln || (!isStr && !prevString)) {
			out = m.strConcat(out, conc(" "))
		}
		out = m.strConcat(out, m.fmtValue(fr, a.v, a.t, 'v', false))
		prevString = isStr
	}
	if ln {
		out = m.strConcat(out, conc("\n"))
	}
	return out
}

func (m *Machine) writeTo(fr *frame, w iface, s Str) value {
	bs := m.bytesToValues(m.strBytes(s))
	return m.callMethod(fr, w, "Write", bs)
}

func registerModels(m *Machine) {
	in := m.intrinsics
	in["fmt.Sprintf"] = func(m *Machine, fr *frame, a []value) value {
		s, _ := m.sprintf(fr, a[0].(Str), a[1].([]value), false)
		return s
	}
	in["fmt.Fprintf"] = func(m *Machine, fr *frame, a []value) value {
		s, _ := m.sprintf(fr, a[1].(Str), a[2].([]value), false)
		return m.writeTo(fr, a[0].(iface), s)
	}
	in["fmt.Sprint"] = func(m *Machine, fr *frame, a []value) value { return m.sprint(fr, a[0].([]value), false) }
	in["fmt.Sprintln"] = func(m *Machine, fr *frame, a []value) value { return m.sprint(fr, a[0].([]value), true) }
	in["fmt.Fprint"] = func(m *Machine, fr *frame, a []value) value {
		return m.writeTo(fr, a[0].(iface), m.sprint(fr, a[1].([]value), false))
	}
	in["fmt.Fprintln"] = func(m *Machine, fr *frame, a []value) value {
		return m.writeTo(fr, a[0].(iface), m.sprint(fr, a[1].([]value), true))
	}
	in["fmt.Errorf"] = func(m *Machine, fr *frame, a []value) value {
		s, wrapped := m.sprintf(fr, a[0].(Str), a[1].([]value), true)
		if len(wrapped) == 1 && wrapped[0].t != nil && hasMethod(wrapped[0].t, "Error") {
			fpkg := m.Prog.ImportedPackage("fmt")
			if fpkg == nil {
				panic(unsupported("fmt.Errorf: package fmt not loaded"))
			}
			wt := fpkg.Type("wrapError").Type()
			var obj value = structure{s, wrapped[0]}
			return iface{t: types.NewPointer(wt), v: &obj}
		}
		if len(wrapped) > 1 {
			panic(unsupported("fmt.Errorf with several %w"))
		}
		ep := m.Prog.ImportedPackage("errors")
		return m.call(fr, token.NoPos, ep.Func("New"), []value{s})
	}

	// ---- errors.As (the library version goes through reflectlite) ----
	in["errors.As"] = func(m *Machine, fr *frame, a []value) value {
		err := a[0].(iface)
		tgt := a[1].(iface)
		pt, ok := tgt.t.Underlying().(*types.Pointer)
		tp, _ := tgt.v.(*value)
		if !ok || tp == nil {
			panic(rtPanic("errors: target must be a non-nil pointer"))
		}
		elem := pt.Elem()
		_, elemIsIface := elem.Underlying().(*types.Interface)
		var walk func(e iface, depth int) bool
		walk = func(e iface, depth int) bool {
			if e.t == nil || depth > 16 {
				return false
			}
			if types.AssignableTo(e.t, elem) {
				if elemIsIface {
					m.store(tp, e)
				} else {
					m.store(tp, e.v)
				}
				return true
			}
			if hasMethod(e.t, "As") {
				panic(unsupported("errors.As model: error type with an As method"))
			}
			if hasMethod(e.t, "Unwrap") {
				switch r := m.callMethod(fr, e, "Unwrap").(type) {
				case iface:
					return walk(r, depth+1)
				case []value:
					for _, x := range r {
						if walk(x.(iface), depth+1) {
							return true
						}
					}
				}
			}
			return false
		}
		return m.T.Bool(walk(err, 0))
	}

	// ---- encoding/json ----
	in["encoding/json.Marshal"] = func(m *Machine, fr *frame, a []value) value {
		itf := a[0].(iface)
		bs, errv := m.jsonMarshal(fr, itf.v, itf.t, true)
		if errv != nil {
			return tuple{[]value(nil), *errv}
		}
		return tuple{m.bytesToValues(bs), iface{}}
	}
	// Decoder.Decode: the whole input of the reader is handed to encoding/json.Unmarshal, which the
	// run must replace by a harness stub (the reflective decoder itself is outside the engine)
	in["(*encoding/json.Decoder).Decode"] = func(m *Machine, fr *frame, a []value) value {
		dec := (*a[0].(*value)).(structure)
		r := dec[0].(iface)
		var data []value
		for {
			buf := make([]value, 512)
			for i := range buf {
				buf[i] = m.T.Const(8, 0)
			}
			res := m.callMethod(fr, r, "Read", buf).(tuple)
			n := int(m.concretize(res[0].(*Term)))
			data = append(data, buf[:n]...)
			if e := res[1].(iface); e.t != nil || n == 0 {
				break
			}
		}
		st, ok := m.Stubs["encoding/json.Unmarshal"]
		if !ok {
			panic(unsupported("encoding/json.Decoder.Decode without a stub for encoding/json.Unmarshal"))
		}
		m.IntrHits["stub:encoding/json.Unmarshal(via Decoder.Decode)"]++
		return m.callSSA(fr, token.NoPos, st, []value{data, a[1]}, nil)
	}
	in["(*encoding/json.Encoder).Encode"] = func(m *Machine, fr *frame, a []value) value {
		enc := (*a[0].(*value)).(structure)
		w := enc[0].(iface)
		escapeHTML := enc[2].(*Term)
		itf := a[1].(iface)
		bs, errv := m.jsonMarshal(fr, itf.v, itf.t, m.decide(escapeHTML))
		if errv != nil {
			return *errv
		}
		bs = append(bs, m.T.Const(8, '\n'))
		res := m.callMethod(fr, w, "Write", m.bytesToValues(bs)).(tuple)
		return res[1]
	}
}

// jsonMarshal is a structural walker for the value shapes the harnesses use; every string leaf
// and key goes through the real encoding/json.appendString, interpreted from SSA.
func (m *Machine) jsonMarshal(fr *frame, v value, t types.Type, escapeHTML bool) ([]*Term, *iface) {
	var out []*Term
	lit := func(s string) {
		for i := 0; i < len(s); i++ {
			out = append(out, m.T.Const(8, uint64(s[i])))
		}
	}
	var failed *iface
	var walk func(v value, t types.Type)
	walk = func(v value, t types.Type) {
		if failed != nil {
			return
		}
		if t == nil {
			lit("null")
			return
		}
		if hasMethod(t, "MarshalJSON") {
			// custom marshaller: its output is taken as is (encoding/json would also validate
			// and compact it; the marshallers reachable here emit compact valid JSON)
			if p, ok := v.(*value); ok && p == nil {
				lit("null")
				return
			}
			res := m.callMethod(fr, iface{t, v}, "MarshalJSON").(tuple)
			if e := res[1].(iface); e.t != nil {
				panic(unsupported("json model: MarshalJSON returned an error"))
			}
			out = append(out, m.jsonCompact(valuesToBytes(res[0].([]value)), escapeHTML)...)
			return
		}
		if _, isPtr := t.Underlying().(*types.Pointer); !isPtr && hasMethod(types.NewPointer(t), "MarshalJSON") {
			// pointer-receiver marshaller on an addressable value
			cp := copyVal(v)
			res := m.callMethod(fr, iface{types.NewPointer(t), &cp}, "MarshalJSON").(tuple)
			if e := res[1].(iface); e.t != nil {
				panic(unsupported("json model: MarshalJSON returned an error"))
			}
			out = append(out, m.jsonCompact(valuesToBytes(res[0].([]value)), escapeHTML)...)
			return
		}
		if hasMethod(t, "MarshalText") {
			// encoding.TextMarshaler: the text is encoded as a JSON string
			if p, ok := v.(*value); ok && p == nil {
				lit("null")
				return
			}
			res := m.callMethod(fr, iface{t, v}, "MarshalText").(tuple)
			if e := res[1].(iface); e.t != nil {
				panic(unsupported("json model: MarshalText returned an error"))
			}
			out = append(out, m.jsonString(fr, m.mkStr(valuesToBytes(res[0].([]value))), escapeHTML)...)
			return
		}
		switch u := t.Underlying().(type) {
		case *types.Basic:
			switch {
			case u.Info()&types.IsString != 0:
				out = append(out, m.jsonString(fr, v.(Str), escapeHTML)...)
			case u.Info()&types.IsBoolean != 0:
				if m.decide(v.(*Term)) {
					lit("true")
				} else {
					lit("false")
				}
			case u.Info()&types.IsInteger != 0:
				x := v.(*Term)
				c := m.concretize(x)
				if isSigned(u) {
					lit(strconv.FormatInt(sext(c, x.W), 10))
				} else {
					lit(strconv.FormatUint(c, 10))
				}
			case u.Info()&types.IsFloat != 0:
				f := v.(float64)
				if math.IsNaN(f) || math.IsInf(f, 0) {
					// encoding/json: &UnsupportedValueError{v, strconv.FormatFloat(f, 'g', -1, bits)}
					ut := m.Prog.ImportedPackage("encoding/json").Type("UnsupportedValueError").Type()
					var ev value = m.zero(ut)
					ev.(structure)[1] = conc(strconv.FormatFloat(f, 'g', -1, 64))
					failed = &iface{t: types.NewPointer(ut), v: &ev}
					return
				}
				lit(strconv.FormatFloat(f, 'g', -1, 64))
			default:
				panic(unsupported("json model: basic type " + t.String()))
			}
		case *types.Interface:
			itf := v.(iface)
			walk(itf.v, itf.t)
		case *types.Pointer:
			p := v.(*value)
			if p == nil {
				lit("null")
				return
			}
			walk(*p, u.Elem())
		case *types.Slice:
			s := v.([]value)
			if s == nil {
				lit("null")
				return
			}
			if b, ok := u.Elem().Underlying().(*types.Basic); ok && b.Kind() == types.Uint8 {
				panic(unsupported("json model: []byte"))
			}
			lit("[")
			for i, e := range s {
				if i > 0 {
					lit(",")
				}
				walk(e, u.Elem())
			}
			lit("]")
		case *types.Array:
			lit("[")
			for i, e := range v.(array) {
				if i > 0 {
					lit(",")
				}
				walk(e, u.Elem())
			}
			lit("]")
		case *types.Map:
			mp := v.(*Map)
			if mp == nil {
				lit("null")
				return
			}
			if !isString(u.Key()) {
				panic(unsupported("json model: map with non-string keys"))
			}
			var idx []int
			for i := range mp.keys {
				if !mp.dead[i] {
					idx = append(idx, i)
				}
			}
			// insertion sort by key bytes (encoding/json sorts map keys)
			for i := 1; i < len(idx); i++ {
				for j := i; j > 0; j-- {
					if m.decide(m.strLess(mp.keys[idx[j]].(Str), mp.keys[idx[j-1]].(Str), false)) {
						idx[j], idx[j-1] = idx[j-1], idx[j]
					} else {
						break
					}
				}
			}
			lit("{")
			for k, i := range idx {
				if k > 0 {
					lit(",")
				}
				out = append(out, m.jsonString(fr, mp.keys[i].(Str), escapeHTML)...)
				lit(":")
				walk(mp.vals[i], u.Elem())
			}
			lit("}")
		case *types.Struct:
			sv := v.(structure)
			lit("{")
			first := true
			for i := 0; i < u.NumFields(); i++ {
				f := u.Field(i)
				if !f.Exported() {
					continue
				}
				if f.Embedded() {
					panic(unsupported("json model: embedded field"))
				}
				name := f.Name()
				tag := reflect.StructTag(u.Tag(i)).Get("json")
				if tag == "-" {
					continue
				}
				omitEmpty := false
				if tag != "" {
					parts := strings.Split(tag, ",")
					if parts[0] != "" {
						name = parts[0]
					}
					for _, o := range parts[1:] {
						switch o {
						case "omitempty":
							omitEmpty = true
						default:
							panic(unsupported("json model: tag option " + o))
						}
					}
				}
				if omitEmpty && m.jsonIsEmpty(sv[i], f.Type()) {
					continue
				}
				if !first {
					lit(",")
				}
				first = false
				out = append(out, m.jsonString(fr, conc(name), escapeHTML)...)
				lit(":")
				walk(sv[i], f.Type())
			}
			lit("}")
		default:
			panic(unsupported("json model: type " + t.String()))
		}
	}
	walk(v, t)
	if failed != nil {
		return nil, failed
	}
	return out, nil
}

func (m *Machine) jsonIsEmpty(v value, t types.Type) bool {
	switch u := t.Underlying().(type) {
	case *types.Basic:
		switch {
		case u.Info()&types.IsString != 0:
			return v.(Str).Len() == 0
		case u.Info()&types.IsBoolean != 0:
			return !m.decide(v.(*Term))
		case u.Info()&types.IsInteger != 0:
			x := v.(*Term)
			return m.decide(m.T.Eq(x, m.T.Const(x.W, 0)))
		}
	case *types.Slice:
		return len(v.([]value)) == 0
	case *types.Map:
		mp := v.(*Map)
		return mp == nil || mp.n == 0
	case *types.Pointer:
		return v.(*value) == nil
	case *types.Interface:
		return v.(iface).t == nil
	}
	return false
}

// jsonString runs the real encoding/json.appendString[string].
func (m *Machine) jsonString(fr *frame, s Str, escapeHTML bool) []*Term {
	if m.jsonAppendString == nil {
		jp := m.Prog.ImportedPackage("encoding/json")
		if jp == nil {
			panic(unsupported("json model: encoding/json not loaded"))
		}
		generic := jp.Func("appendString")
		var find func(f *ssa.Function) *ssa.Function
		seen := map[*ssa.Function]bool{}
		find = func(f *ssa.Function) *ssa.Function {
			if f == nil || seen[f] {
				return nil
			}
			seen[f] = true
			for _, b := range f.Blocks {
				for _, ins := range b.Instrs {
					if c, ok := ins.(ssa.CallInstruction); ok {
						if callee := c.Common().StaticCallee(); callee != nil && callee.Origin() == generic {
							if ta := callee.TypeArgs(); len(ta) == 1 && isString(ta[0]) {
								return callee
							}
						}
					}
				}
			}
			for _, an := range f.AnonFuncs {
				if r := find(an); r != nil {
					return r
				}
			}
			return nil
		}
		for _, name := range []string{"stringEncoder", "resolveKeyName", "interfaceEncoder"} {
			if r := find(jp.Func(name)); r != nil {
				m.jsonAppendString = r
				break
			}
		}
		if m.jsonAppendString == nil {
			// fall back: scan every function of the package
			for _, mem := range jp.Members {
				if f, ok := mem.(*ssa.Function); ok {
					if r := find(f); r != nil {
						m.jsonAppendString = r
						break
					}
				}
			}
		}
		if m.jsonAppendString == nil {
			// methods
			for _, mem := range jp.Members {
				if tp, ok := mem.(*ssa.Type); ok {
					for _, T := range []types.Type{tp.Type(), types.NewPointer(tp.Type())} {
						ms := m.Prog.MethodSets.MethodSet(T)
						for i := 0; i < ms.Len(); i++ {
							if r := find(m.Prog.MethodValue(ms.At(i))); r != nil {
								m.jsonAppendString = r
							}
						}
					}
				}
			}
		}
		if m.jsonAppendString == nil {
			panic(unsupported("json model: cannot find appendString[string] instance"))
		}
	}
	res := m.call(fr, token.NoPos, m.jsonAppendString, []value{[]value(nil), s, m.T.Bool(escapeHTML)})
	return valuesToBytes(res.([]value))
}

// ---- tolerant package initialisation ----

// initPackageTolerant runs pkg's init, computing what it can: results of calls the engine
// cannot execute become poison; a later read of a poisoned value aborts as unsupported.
func (m *Machine) initPackageTolerant(pkg *ssa.Package) {
	if m.inited[pkg] {
		return
	}
	m.inited[pkg] = true
	for _, mem := range pkg.Members {
		if g, ok := mem.(*ssa.Global); ok {
			if _, ok := m.globals[g]; !ok {
				p := new(value)
				*p = m.zeroTolerant(deref(g.Type()))
				m.globals[g] = p
			}
		}
	}
	init := pkg.Func("init")
	if init == nil {
		return
	}
	wasJ := m.journaling
	m.journaling = false
	defer func() { m.journaling = wasJ }()
	fr := &frame{m: m, fn: init, env: make(map[ssa.Value]value, 64), block: init.Blocks[0], locals: make([]value, len(init.Locals))}
	for i, l := range init.Locals {
		fr.locals[i] = m.zeroTolerant(deref(l.Type()))
		fr.env[l] = &fr.locals[i]
	}
	isPoison := func(v ssa.Value) (poison, bool) {
		switch v.(type) {
		case nil, *ssa.Const, *ssa.Global, *ssa.Function, *ssa.Builtin:
			return poison{}, false
		}
		if x, ok := fr.env[v]; ok {
			p, isP := x.(poison)
			return p, isP
		}
		return poison{"undefined"}, true
	}
	for fr.block != nil {
		blk := fr.block
		next := (*ssa.BasicBlock)(nil)
		for _, instr := range blk.Instrs {
			var ops []*ssa.Value
			ops = instr.Operands(ops)
			var why *poison
			for _, op := range ops {
				if op == nil || *op == nil {
					continue
				}
				if p, isP := isPoison(*op); isP {
					why = &p
					break
				}
			}
			if why != nil {
				switch ins := instr.(type) {
				case *ssa.Store:
					if _, bad := isPoison(ins.Addr); !bad {
						if p, ok := fr.get(ins.Addr).(*value); ok && p != nil {
							*p = *why
						}
					}
				case *ssa.If:
					// cannot continue: poison every global of the package that is still zero
					m.poisonRemaining(pkg, "package init of "+pkg.Pkg.Path()+" stopped at a branch on an uncomputable value")
					return
				case *ssa.Jump:
					next = blk.Succs[0]
				case *ssa.Return:
					return
				case ssa.Value:
					fr.env[ins] = *why
				}
				if next != nil {
					break
				}
				continue
			}
			var cont continuation
			failed := ""
			func() {
				defer func() {
					if r := recover(); r != nil {
						switch r := r.(type) {
						case abort:
							failed = r.Error()
						case targetPanic:
							failed = "panic: " + showValue(r.v)
						default:
							failed = fmt.Sprint(r)
						}
					}
				}()
				cont = m.visitInstr(fr, instr)
			}()
			if failed != "" {
				if v, ok := instr.(ssa.Value); ok {
					fr.env[v] = poison{failed}
				}
				if _, ok := instr.(*ssa.If); ok {
					m.poisonRemaining(pkg, failed)
					return
				}
				continue
			}
			if cont == kReturn {
				return
			}
			if cont == kJump {
				next = fr.block
				break
			}
		}
		if next == nil {
			return
		}
		fr.prevBlock, fr.block = blk, next
	}
}

func (m *Machine) poisonRemaining(pkg *ssa.Package, why string) {
	for _, mem := range pkg.Members {
		if g, ok := mem.(*ssa.Global); ok {
			if p := m.globals[g]; p != nil {
				*p = poison{why}
			}
		}
	}
}

// zeroTolerant is zero() that yields poison for types the engine cannot represent.
func (m *Machine) zeroTolerant(t types.Type) (v value) {
	defer func() {
		if r := recover(); r != nil {
			v = poison{"zero value of " + t.String()}
		}
	}()
	return m.zero(t)
}

// jsonCompact mirrors what encoding/json does to the output of a MarshalJSON method: remove
// insignificant whitespace and, with escapeHTML, write <, >, & and U+2028/U+2029 as \u escapes.
// (Validation of the marshaller's output is not modelled: the marshallers reached emit valid JSON.)
func (m *Machine) jsonCompact(bs []*Term, escapeHTML bool) []*Term {
	var out []*Term
	lit := func(s string) {
		for i := 0; i < len(s); i++ {
			out = append(out, m.T.Const(8, uint64(s[i])))
		}
	}
	is := func(b *Term, c byte) bool { return m.decide(m.T.Eq(b, m.T.Const(8, uint64(c)))) }
	inStr, esc := false, false
	for i := 0; i < len(bs); i++ {
		b := bs[i]
		if escapeHTML {
			switch {
			case is(b, '<'):
				lit("\\u003c")
				esc = false
				continue
			case is(b, '>'):
				lit("\\u003e")
				esc = false
				continue
			case is(b, '&'):
				lit("\\u0026")
				esc = false
				continue
			}
			if i+2 < len(bs) && is(b, 0xE2) && is(bs[i+1], 0x80) {
				if is(bs[i+2], 0xA8) {
					lit("\\u2028")
					i += 2
					continue
				}
				if is(bs[i+2], 0xA9) {
					lit("\\u2029")
					i += 2
					continue
				}
			}
		}
		if inStr {
			out = append(out, b)
			switch {
			case esc:
				esc = false
			case is(b, '\\'):
				esc = true
			case is(b, '"'):
				inStr = false
			}
			continue
		}
		if is(b, ' ') || is(b, '\t') || is(b, '\n') || is(b, '\r') {
			continue
		}
		if is(b, '"') {
			inStr = true
		}
		out = append(out, b)
	}
	return out
}
