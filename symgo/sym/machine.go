package sym

import (
	"fmt"
	"go/token"
	"go/types"
	"os"
	"strings"

	"golang.org/x/tools/go/ssa"
)

// abort is raised (as a Go panic) to end the current path for an engine-level reason.
type abort struct {
	kind string // "infeasible", "unsupported", "bound", "engine"
	msg  string
}

func unsupported(msg string) abort { return abort{"unsupported", msg} }

// targetPanic is a panic of the interpreted program.
type targetPanic struct{ v value }

type runtimeError string

func (e runtimeError) Error() string { return "runtime error: " + string(e) }

type intrinsic func(m *Machine, fr *frame, args []value) value

type intrinsicFn struct {
	f    intrinsic
	name string
}

// opaque is an engine-level object standing for a runtime value the interpreter does not
// represent structurally (reflect types, regexps, ...).
type opaque struct {
	kind string
	data interface{}
}

type undo struct {
	p   *value
	old value
	f   func()
}

// Machine is one interpreter instance: private globals, term table and solver.
type Machine struct {
	Prog      *ssa.Program
	T         *Terms
	S         *Solver
	globals   map[*ssa.Global]*value
	inited    map[*ssa.Package]bool
	InitAllow func(pkgPath string) bool
	// ZeroGlobalsOK names packages whose init is skipped but whose globals may be read as zero
	// (e.g. internal/cpu: "no optional CPU features" is a valid configuration).
	ZeroGlobalsOK func(pkgPath string) bool
	intrinsics    map[string]intrinsic
	methodMemo    map[methodKey]*ssa.Function
	envIndex      map[*ssa.Function]map[ssa.Value]int

	path                                      *Path
	journal                                   []undo
	journaling                                bool
	Steps                                     int64
	StepBudget                                int64
	BudgetIsViolation                         bool
	FuncHits                                  map[string]int64
	SkippedInits                              map[string]bool
	pools                                     map[*value][]value
	IntrHits                                  map[string]int64
	Trace                                     bool
	depth                                     int
	Params                                    map[string]int64
	KnownListed                               map[string]bool
	Witness                                   bool
	TolerantInit                              func(pkgPath string) bool
	Stubs                                     map[string]*ssa.Function // full function name -> replacement (per-harness stubs of /repo functions)
	NoopPkgs                                  func(pkgPath string) bool
	vfiles                                    map[string]Str
	vmtime                                    map[string]*Term
	vlinks                                    map[string]string
	vclock                                    *Term
	CrossEvery                                int // cross-check every n-th assertion query with z3-new and cvc5 (0 = never)
	crossCount                                int
	CrossChecked, CrossAgreed, CrossUndecided int
	sched                                     *scheduler
	DecideProfile                             map[string]int64
	curFn                                     string
	jsonAppendString                          *ssa.Function
	witnessed                                 map[string]bool
}

type methodKey struct {
	t    types.Type
	name string
}

func NewMachine(prog *ssa.Program, solver *Solver) *Machine {
	m := &Machine{
		Prog:         prog,
		T:            NewTerms(),
		S:            solver,
		globals:      map[*ssa.Global]*value{},
		inited:       map[*ssa.Package]bool{},
		intrinsics:   map[string]intrinsic{},
		methodMemo:   map[methodKey]*ssa.Function{},
		envIndex:     map[*ssa.Function]map[ssa.Value]int{},
		FuncHits:     map[string]int64{},
		SkippedInits: map[string]bool{},
		pools:        map[*value][]value{},
		IntrHits:     map[string]int64{},
		StepBudget:   200_000_000,
	}
	registerIntrinsics(m)
	registerModels(m)
	registerCodecs(m)
	registerSched(m)
	registerVFS(m)
	return m
}

type deferred struct {
	fn    value
	args  []value
	instr *ssa.Defer
	tail  *deferred
}

type frame struct {
	m         *Machine
	caller    *frame
	fn        *ssa.Function
	block     *ssa.BasicBlock
	prevBlock *ssa.BasicBlock
	env       map[ssa.Value]value
	locals    []value
	defers    *deferred
	result    value
	panicking bool
	panic     interface{}
	callPos   token.Pos
}

func (fr *frame) get(key ssa.Value) value {
	switch key := key.(type) {
	case nil:
		return nil
	case *ssa.Function, *ssa.Builtin:
		return key
	case *ssa.Const:
		return fr.m.constValue(key)
	case *ssa.Global:
		return fr.m.global(key)
	}
	if r, ok := fr.env[key]; ok {
		return r
	}
	panic(abort{"engine", fmt.Sprintf("get: no value for %T %v in %s", key, key.Name(), fr.fn)})
}

func (m *Machine) global(g *ssa.Global) *value {
	if p, ok := m.globals[g]; ok {
		return p
	}
	if g.Pkg != nil && !m.inited[g.Pkg] {
		if m.InitAllow != nil && m.InitAllow(g.Pkg.Pkg.Path()) {
			m.initPackage(g.Pkg)
			if p, ok := m.globals[g]; ok {
				return p
			}
		} else if m.TolerantInit != nil && m.TolerantInit(g.Pkg.Pkg.Path()) {
			m.initPackageTolerant(g.Pkg)
			if p, ok := m.globals[g]; ok {
				return p
			}
		} else if m.ZeroGlobalsOK == nil || !m.ZeroGlobalsOK(g.Pkg.Pkg.Path()) {
			panic(unsupported("read of global " + g.String() + " of uninitialised package"))
		}
	}
	p := new(value)
	*p = m.zero(deref(g.Type()))
	m.globals[g] = p
	return p
}

func deref(t types.Type) types.Type {
	if p, ok := t.Underlying().(*types.Pointer); ok {
		return p.Elem()
	}
	return t
}

// initPackage runs the synthesized init of pkg (and, through it, of allowed imports).
func (m *Machine) initPackage(pkg *ssa.Package) {
	if m.inited[pkg] {
		return
	}
	m.inited[pkg] = true
	for _, mem := range pkg.Members {
		if g, ok := mem.(*ssa.Global); ok {
			if _, ok := m.globals[g]; !ok {
				p := new(value)
				*p = m.zero(deref(g.Type()))
				m.globals[g] = p
			}
		}
	}
	if init := pkg.Func("init"); init != nil {
		m.call(nil, token.NoPos, init, nil)
	}
}

func (m *Machine) constValue(c *ssa.Const) value {
	if c.Value == nil {
		return m.zero(c.Type())
	}
	t := c.Type().Underlying()
	if b, ok := t.(*types.Basic); ok {
		switch {
		case b.Info()&types.IsBoolean != 0:
			return m.T.Bool(constantBool(c))
		case b.Info()&types.IsInteger != 0:
			if b.Info()&types.IsUnsigned == 0 {
				return m.T.Const(m.width(b), uint64(c.Int64()))
			}
			return m.T.Const(m.width(b), c.Uint64())
		case b.Info()&types.IsString != 0:
			return conc(constantString(c))
		case b.Info()&types.IsFloat != 0:
			return c.Float64()
		}
	}
	if tp, ok := c.Type().(*types.TypeParam); ok {
		panic(unsupported("constant of type parameter " + tp.String()))
	}
	panic(unsupported("constant of type " + c.Type().String()))
}

func (m *Machine) store(p *value, v value) {
	// aggregates are assigned in place so that addresses of their fields/elements taken
	// earlier (FieldAddr/IndexAddr) stay valid
	switch nv := v.(type) {
	case structure:
		if cur, ok := (*p).(structure); ok && len(cur) == len(nv) {
			for i := range nv {
				m.store(&cur[i], nv[i])
			}
			return
		}
	case array:
		if cur, ok := (*p).(array); ok && len(cur) == len(nv) {
			for i := range nv {
				m.store(&cur[i], nv[i])
			}
			return
		}
	}
	if m.journaling {
		m.journal = append(m.journal, undo{p: p, old: *p})
	}
	*p = copyVal(v)
}

func (m *Machine) undoAll() {
	for i := len(m.journal) - 1; i >= 0; i-- {
		u := m.journal[i]
		if u.f != nil {
			u.f()
		} else {
			*u.p = u.old
		}
	}
	m.journal = m.journal[:0]
}

// call invokes fn (function, closure, builtin) with args.
func (m *Machine) call(caller *frame, pos token.Pos, fn value, args []value) value {
	switch fn := fn.(type) {
	case *ssa.Function:
		if fn == nil {
			panic(targetPanic{runtimeError("call of nil function")})
		}
		return m.callSSA(caller, pos, fn, args, nil)
	case *closure:
		if fn == nil {
			panic(targetPanic{runtimeError("call of nil closure")})
		}
		return m.callSSA(caller, pos, fn.fn, args, fn.env)
	case *ssa.Builtin:
		return m.callBuiltin(caller, pos, fn, args)
	case intrinsicFn:
		m.IntrHits[fn.name]++
		return fn.f(m, &frame{m: m, caller: caller, callPos: pos}, args)
	}
	panic(abort{"engine", fmt.Sprintf("cannot call %T", fn)})
}

func (m *Machine) callSSA(caller *frame, pos token.Pos, fn *ssa.Function, args []value, env []value) value {
	name := fn.String()
	if fn.Pkg != nil && fn.Name() == "init" && fn.Synthetic != "" {
		// package initializer reached through an importing package's init
		if m.InitAllow == nil || !m.InitAllow(fn.Pkg.Pkg.Path()) {
			if m.TolerantInit != nil && m.TolerantInit(fn.Pkg.Pkg.Path()) {
				m.initPackageTolerant(fn.Pkg)
				return nil
			}
			m.SkippedInits[fn.Pkg.Pkg.Path()] = true
			return nil
		}
		if !m.inited[fn.Pkg] {
			m.initPackage(fn.Pkg)
			return nil
		}
	}
	if fn.Pkg != nil && m.NoopPkgs != nil && m.NoopPkgs(fn.Pkg.Pkg.Path()) {
		// logging and similar: empty body, zero results
		m.IntrHits["noop:"+fn.Pkg.Pkg.Path()]++
		res := fn.Signature.Results()
		switch res.Len() {
		case 0:
			return nil
		case 1:
			return m.zero(res.At(0).Type())
		}
		return m.zero(res)
	}
	if st, ok := m.Stubs[name]; ok && st != fn {
		m.IntrHits["stub:"+name]++
		return m.callSSA(caller, pos, st, args, nil)
	}
	if in, ok := m.intrinsics[name]; ok {
		m.IntrHits[name]++
		fr := &frame{m: m, caller: caller, fn: fn, callPos: pos}
		return in(m, fr, args)
	}
	if fn.Origin() != nil {
		if in, ok := m.intrinsics[fn.Origin().String()]; ok {
			m.IntrHits[fn.Origin().String()]++
			fr := &frame{m: m, caller: caller, fn: fn, callPos: pos}
			return in(m, fr, args)
		}
	}
	if fn.Pkg != nil && strings.HasPrefix(fn.Name(), "sym") {
		if in, ok := m.intrinsics["sym:"+fn.Name()]; ok {
			m.IntrHits["sym:"+fn.Name()]++
			fr := &frame{m: m, caller: caller, fn: fn, callPos: pos}
			return in(m, fr, args)
		}
	}
	if fn.Blocks == nil {
		panic(unsupported("call of function without body: " + name))
	}
	if fn.Pkg != nil && !m.inited[fn.Pkg] && fn.Name() != "init" {
		if m.InitAllow != nil && m.InitAllow(fn.Pkg.Pkg.Path()) {
			m.initPackage(fn.Pkg)
		} else if m.TolerantInit != nil && m.TolerantInit(fn.Pkg.Pkg.Path()) {
			m.initPackageTolerant(fn.Pkg)
		}
	}
	m.FuncHits[name]++
	if m.DecideProfile != nil {
		prev := m.curFn
		m.curFn = name
		defer func() { m.curFn = prev }()
	}
	m.depth++
	if m.depth > 5000 {
		panic(abort{"bound", "call depth > 5000 in " + name})
	}
	defer func() { m.depth-- }()
	if m.Trace {
		fmt.Fprintf(os.Stderr, "%s-> %s\n", strings.Repeat(" ", m.depth%60), name)
	}
	fr := &frame{
		m:       m,
		caller:  caller,
		fn:      fn,
		env:     make(map[ssa.Value]value, 16),
		block:   fn.Blocks[0],
		locals:  make([]value, len(fn.Locals)),
		callPos: pos,
	}
	for i, l := range fn.Locals {
		fr.locals[i] = m.zero(deref(l.Type()))
		fr.env[l] = &fr.locals[i]
	}
	for i, p := range fn.Params {
		fr.env[p] = args[i]
	}
	for i, fv := range fn.FreeVars {
		fr.env[fv] = env[i]
	}
	for fr.block != nil {
		m.runFrame(fr)
	}
	return fr.result
}

// runFrame executes until return or until a panic has been handled by the frame's defers.
func (m *Machine) runFrame(fr *frame) {
	defer func() {
		if fr.block == nil {
			return // normal return
		}
		r := recover()
		if r == nil {
			return
		}
		if _, ok := r.(targetPanic); !ok {
			panic(r) // engine abort or engine bug: propagate untouched
		}
		fr.panicking = true
		fr.panic = r
		fr.runDefers()
		// recovered: resume at the Recover block if any
		fr.block = fr.fn.Recover
		if fr.block == nil {
			fr.result = m.zero(fr.fn.Signature.Results())
			if fr.fn.Signature.Results().Len() == 0 {
				fr.result = nil
			}
		}
	}()
	for {
		blk := fr.block
		// phis first, evaluated in parallel
		var phiVals []value
		nphi := 0
		for _, instr := range blk.Instrs {
			phi, ok := instr.(*ssa.Phi)
			if !ok {
				break
			}
			nphi++
			for i, pred := range blk.Preds {
				if pred == fr.prevBlock {
					phiVals = append(phiVals, fr.get(phi.Edges[i]))
					break
				}
			}
		}
		for i := 0; i < nphi; i++ {
			fr.env[blk.Instrs[i].(*ssa.Phi)] = phiVals[i]
		}
		jumped := false
		for _, instr := range blk.Instrs[nphi:] {
			m.Steps++
			if m.Steps > m.StepBudget {
				panic(abort{"bound", "step budget exceeded"})
			}
			switch m.visitInstr(fr, instr) {
			case kReturn:
				return
			case kJump:
				jumped = true
			}
			if jumped {
				break
			}
		}
		if !jumped {
			panic(abort{"engine", "block fell through: " + fr.fn.String()})
		}
	}
}

func (fr *frame) runDefers() {
	for d := fr.defers; d != nil; d = d.tail {
		fr.runDefer(d)
	}
	fr.defers = nil
	if fr.panicking {
		panic(fr.panic)
	}
}

func (fr *frame) runDefer(d *deferred) {
	ok := false
	defer func() {
		if !ok {
			r := recover()
			if _, isTP := r.(targetPanic); !isTP {
				panic(r)
			}
			// deferred call panicked: replaces the current panic
			fr.panicking = true
			fr.panic = r
		}
	}()
	fr.m.call(fr, d.instr.Pos(), d.fn, d.args)
	ok = true
}

type continuation int

const (
	kNext continuation = iota
	kReturn
	kJump
)

func (m *Machine) prepareCall(fr *frame, call *ssa.CallCommon) (fn value, args []value) {
	v := fr.get(call.Value)
	if call.Method == nil {
		fn = v
	} else {
		recv := v.(iface)
		if recv.t == nil {
			panic(rtPanic("invalid memory address or nil pointer dereference (method call on nil interface)"))
		}
		if op, ok := recv.v.(opaque); ok {
			in, ok := m.intrinsics["opaque:"+op.kind+"."+call.Method.Name()]
			if !ok {
				panic(unsupported("method " + call.Method.Name() + " on opaque " + op.kind))
			}
			args = append(args, recv.v)
			for _, a := range call.Args {
				args = append(args, fr.get(a))
			}
			return intrinsicFn{in, "opaque:" + op.kind + "." + call.Method.Name()}, args
		}
		f := m.lookupMethod(recv.t, call.Method)
		if f == nil {
			panic(abort{"engine", fmt.Sprintf("method %s not found on %s", call.Method, recv.t)})
		}
		fn = f
		args = append(args, recv.v)
	}
	for _, a := range call.Args {
		args = append(args, fr.get(a))
	}
	return
}

func (m *Machine) lookupMethod(t types.Type, meth *types.Func) *ssa.Function {
	k := methodKey{t, meth.Id()}
	if f, ok := m.methodMemo[k]; ok {
		return f
	}
	f := m.Prog.LookupMethod(t, meth.Pkg(), meth.Name())
	m.methodMemo[k] = f
	return f
}

func (m *Machine) visitInstr(fr *frame, instr ssa.Instruction) continuation {
	switch instr := instr.(type) {
	case *ssa.DebugRef:
	case *ssa.UnOp:
		fr.env[instr] = m.unop(fr, instr, fr.get(instr.X))
	case *ssa.BinOp:
		fr.env[instr] = m.binop(instr.Op, instr.X.Type(), fr.get(instr.X), fr.get(instr.Y))
	case *ssa.Call:
		fn, args := m.prepareCall(fr, &instr.Call)
		fr.env[instr] = m.call(fr, instr.Pos(), fn, args)
	case *ssa.ChangeInterface:
		fr.env[instr] = fr.get(instr.X)
	case *ssa.ChangeType:
		fr.env[instr] = fr.get(instr.X)
	case *ssa.Convert:
		fr.env[instr] = m.conv(instr.Type(), instr.X.Type(), fr.get(instr.X))
	case *ssa.MultiConvert:
		fr.env[instr] = m.conv(instr.Type(), instr.X.Type(), fr.get(instr.X))
	case *ssa.SliceToArrayPointer:
		s := fr.get(instr.X).([]value)
		n := int(deref(instr.Type()).Underlying().(*types.Array).Len())
		if len(s) < n {
			panic(targetPanic{runtimeError("cannot convert slice to array pointer: length too short")})
		}
		var av value = array(s[:n:n]) // shares cells
		fr.env[instr] = &av
	case *ssa.MakeInterface:
		fr.env[instr] = iface{t: instr.X.Type(), v: fr.get(instr.X)}
	case *ssa.Extract:
		fr.env[instr] = fr.get(instr.Tuple).(tuple)[instr.Index]
	case *ssa.Slice:
		fr.env[instr] = m.sliceOp(instr, fr.get(instr.X), fr.get(instr.Low), fr.get(instr.High), fr.get(instr.Max))
	case *ssa.Return:
		switch len(instr.Results) {
		case 0:
		case 1:
			fr.result = fr.get(instr.Results[0])
		default:
			res := make(tuple, len(instr.Results))
			for i, r := range instr.Results {
				res[i] = fr.get(r)
			}
			fr.result = res
		}
		fr.block = nil
		return kReturn
	case *ssa.RunDefers:
		fr.runDefers()
	case *ssa.Panic:
		panic(targetPanic{fr.get(instr.X)})
	case *ssa.Send:
		m.chanSend(fr.get(instr.Chan).(*Chan), fr.get(instr.X))
	case *ssa.Store:
		p := fr.get(instr.Addr).(*value)
		if p == nil {
			panic(targetPanic{runtimeError("invalid memory address or nil pointer dereference")})
		}
		m.store(p, fr.get(instr.Val))
	case *ssa.If:
		succ := 1
		if m.decide(fr.get(instr.Cond).(*Term)) {
			succ = 0
		}
		fr.prevBlock, fr.block = fr.block, fr.block.Succs[succ]
		return kJump
	case *ssa.Jump:
		fr.prevBlock, fr.block = fr.block, fr.block.Succs[0]
		return kJump
	case *ssa.Defer:
		fn, args := m.prepareCall(fr, &instr.Call)
		fr.defers = &deferred{fn: fn, args: args, instr: instr, tail: fr.defers}
	case *ssa.Go:
		fn, args := m.prepareCall(fr, &instr.Call)
		name := "go@" + fr.fn.Name()
		m.spawn(fr, instr.Pos(), fn, args, name)
	case *ssa.MakeChan:
		fr.env[instr] = &Chan{cap: int(m.concretize(fr.get(instr.Size).(*Term)))}
	case *ssa.Alloc:
		var addr *value
		if instr.Heap {
			addr = new(value)
			fr.env[instr] = addr
		} else {
			addr = fr.env[instr].(*value)
		}
		*addr = m.zero(deref(instr.Type()))
	case *ssa.MakeSlice:
		n := int(int64(m.concretize(fr.get(instr.Len).(*Term))))
		c := int(int64(m.concretize(fr.get(instr.Cap).(*Term))))
		if n < 0 || c < n || c > 1<<26 {
			if c > 1<<26 {
				panic(abort{"bound", "makeslice larger than 64M elements"})
			}
			panic(targetPanic{runtimeError("makeslice: len out of range")})
		}
		s := make([]value, c)
		et := instr.Type().Underlying().(*types.Slice).Elem()
		z := m.zero(et)
		for i := range s {
			s[i] = copyVal(z)
		}
		fr.env[instr] = s[:n]
	case *ssa.MakeMap:
		fr.env[instr] = &Map{index: map[string]int{}}
	case *ssa.Range:
		fr.env[instr] = m.rangeIter(fr.get(instr.X), instr.X.Type())
	case *ssa.Next:
		fr.env[instr] = fr.get(instr.Iter).(iter).next(m)
	case *ssa.FieldAddr:
		p := fr.get(instr.X).(*value)
		if p == nil {
			panic(targetPanic{runtimeError("invalid memory address or nil pointer dereference")})
		}
		fr.env[instr] = &(*p).(structure)[instr.Field]
	case *ssa.Field:
		fr.env[instr] = fr.get(instr.X).(structure)[instr.Field]
	case *ssa.IndexAddr:
		fr.env[instr] = m.indexAddr(instr, fr.get(instr.X), fr.get(instr.Index).(*Term))
	case *ssa.Index:
		fr.env[instr] = m.index(fr.get(instr.X), fr.get(instr.Index).(*Term), isSigned(instr.Index.Type()))
	case *ssa.Lookup:
		fr.env[instr] = m.lookup(instr, fr.get(instr.X), fr.get(instr.Index))
	case *ssa.MapUpdate:
		mp := fr.get(instr.Map).(*Map)
		if mp == nil {
			panic(targetPanic{runtimeError("assignment to entry in nil map")})
		}
		m.mapSet(mp, fr.get(instr.Key), fr.get(instr.Value))
	case *ssa.TypeAssert:
		fr.env[instr] = m.typeAssert(instr, fr.get(instr.X).(iface))
	case *ssa.MakeClosure:
		var bindings []value
		for _, b := range instr.Bindings {
			bindings = append(bindings, fr.get(b))
		}
		fr.env[instr] = &closure{instr.Fn.(*ssa.Function), bindings}
	case *ssa.Select:
		fr.env[instr] = m.selectOp(fr, instr)
	default:
		panic(unsupported(fmt.Sprintf("instruction %T", instr)))
	}
	return kNext
}

// InitPackage runs pkg's init (exported for drivers).
func (m *Machine) InitPackage(pkg *ssa.Package) { m.initPackage(pkg) }

// Call runs fn with no arguments.
func (m *Machine) Call(fn *ssa.Function) { m.call(nil, token.NoPos, fn, nil) }

func (a abort) Error() string { return a.kind + ": " + a.msg }
