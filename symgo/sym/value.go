package sym

import (
	"fmt"
	"go/types"
	"strings"

	"golang.org/x/tools/go/ssa"
)

// value is any interpreter value:
//
//	*Term       bool and all integer kinds (constant or symbolic)
//	float64     float32/float64 (concrete only)
//	Str         string
//	*value      pointer
//	structure   struct (by value)
//	array       array (by value)
//	[]value     slice
//	*Map        map
//	iface       interface
//	*closure / *ssa.Function / *ssa.Builtin   functions
//	tuple       multiple results
//	*Chan       channel
//	nil         nil of any nillable kind is represented by a typed zero (see zero)
type value interface{}

type structure []value
type array []value
type tuple []value

// slices are plain []value (nil slice = []value(nil)), as in x/tools' interp.

type iface struct {
	t types.Type // dynamic type; nil means nil interface
	v value
}

type closure struct {
	fn  *ssa.Function
	env []value
}

// Str is a string: either fully concrete (b == nil) or a vector of byte terms.
type Str struct {
	s string
	b []*Term
}

func (s Str) Len() int {
	if s.b != nil {
		return len(s.b)
	}
	return len(s.s)
}

func (s Str) Concrete() bool { return s.b == nil }

// Map is an insertion-ordered map supporting symbolic keys.
type Map struct {
	keys    []value
	vals    []value
	dead    []bool
	index   map[string]int // fingerprint of concrete keys -> slot
	n       int
	symKeys bool
	epoch   int
}

// Chan is a simple FIFO channel used in single-goroutine mode.
type Chan struct {
	buf    []value
	cap    int
	closed bool
}

// Bytes returns the byte terms of a string.
func (m *Machine) strBytes(s Str) []*Term {
	if s.b != nil {
		return s.b
	}
	out := make([]*Term, len(s.s))
	for i := 0; i < len(s.s); i++ {
		out[i] = m.T.Const(8, uint64(s.s[i]))
	}
	return out
}

// mkStr builds a Str from byte terms, collapsing to a concrete string when possible.
func (m *Machine) mkStr(b []*Term) Str {
	for _, t := range b {
		if !t.IsConst() {
			cp := make([]*Term, len(b))
			copy(cp, b)
			return Str{b: cp}
		}
	}
	var sb strings.Builder
	sb.Grow(len(b))
	for _, t := range b {
		sb.WriteByte(byte(t.K))
	}
	return Str{s: sb.String()}
}

func conc(s string) Str { return Str{s: s} }

// zero returns the zero value of type t.
func (m *Machine) zero(t types.Type) value {
	switch t := t.(type) {
	case *types.Basic:
		switch {
		case t.Kind() == types.UntypedNil:
			return nil
		case t.Info()&types.IsBoolean != 0:
			return m.T.False
		case t.Info()&types.IsInteger != 0:
			return m.T.Const(m.width(t), 0)
		case t.Info()&types.IsFloat != 0:
			return float64(0)
		case t.Info()&types.IsString != 0:
			return Str{}
		case t.Kind() == types.UnsafePointer:
			return (*value)(nil)
		}
		panic(unsupported("zero of basic type " + t.String()))
	case *types.Pointer:
		return (*value)(nil)
	case *types.Array:
		a := make(array, t.Len())
		for i := range a {
			a[i] = m.zero(t.Elem())
		}
		return a
	case *types.Named:
		return m.zero(t.Underlying())
	case *types.Alias:
		return m.zero(types.Unalias(t))
	case *types.Interface:
		return iface{}
	case *types.Slice:
		return []value(nil)
	case *types.Struct:
		s := make(structure, t.NumFields())
		for i := range s {
			s[i] = m.zero(t.Field(i).Type())
		}
		return s
	case *types.Tuple:
		if t.Len() == 1 {
			return m.zero(t.At(0).Type())
		}
		s := make(tuple, t.Len())
		for i := range s {
			s[i] = m.zero(t.At(i).Type())
		}
		return s
	case *types.Chan:
		return (*Chan)(nil)
	case *types.Map:
		return (*Map)(nil)
	case *types.Signature:
		return (*ssa.Function)(nil)
	case *types.TypeParam:
		panic(unsupported("zero of type parameter " + t.String()))
	}
	panic(unsupported(fmt.Sprintf("zero of %T", t)))
}

// width returns the bit width of an integer/bool basic type (0 for bool).
func (m *Machine) width(t types.Type) int {
	b, ok := t.Underlying().(*types.Basic)
	if !ok {
		panic(unsupported("width of " + t.String()))
	}
	switch b.Kind() {
	case types.Bool, types.UntypedBool:
		return 0
	case types.Int8, types.Uint8:
		return 8
	case types.Int16, types.Uint16:
		return 16
	case types.Int32, types.Uint32, types.UntypedRune:
		return 32
	case types.Int, types.Uint, types.Int64, types.Uint64, types.Uintptr, types.UntypedInt:
		return 64
	}
	panic(unsupported("width of " + t.String()))
}

func isSigned(t types.Type) bool {
	b, ok := t.Underlying().(*types.Basic)
	return ok && b.Info()&types.IsInteger != 0 && b.Info()&types.IsUnsigned == 0
}

func isInteger(t types.Type) bool {
	b, ok := t.Underlying().(*types.Basic)
	return ok && b.Info()&types.IsInteger != 0
}

func isString(t types.Type) bool {
	b, ok := t.Underlying().(*types.Basic)
	return ok && b.Info()&types.IsString != 0
}

func isBoolean(t types.Type) bool {
	b, ok := t.Underlying().(*types.Basic)
	return ok && b.Info()&types.IsBoolean != 0
}

func isFloat(t types.Type) bool {
	b, ok := t.Underlying().(*types.Basic)
	return ok && b.Info()&types.IsFloat != 0
}

// copyVal makes a copy of aggregates so that stores have value semantics.
func copyVal(v value) value {
	switch v := v.(type) {
	case structure:
		c := make(structure, len(v))
		for i := range v {
			c[i] = copyVal(v[i])
		}
		return c
	case array:
		c := make(array, len(v))
		for i := range v {
			c[i] = copyVal(v[i])
		}
		return c
	}
	return v
}

// fingerprint returns a comparable key for a fully concrete value, ok=false if symbolic.
func fingerprint(v value) (string, bool) {
	switch v := v.(type) {
	case *Term:
		if !v.IsConst() {
			return "", false
		}
		return fmt.Sprintf("i%d:%d", v.W, v.K), true
	case Str:
		if !v.Concrete() {
			return "", false
		}
		return "s" + v.s, true
	case float64:
		return fmt.Sprintf("f%v", v), true
	case *value:
		return fmt.Sprintf("p%p", v), true
	case iface:
		if v.t == nil {
			return "I<nil>", true
		}
		f, ok := fingerprint(v.v)
		return "I" + v.t.String() + "/" + f, ok
	case structure:
		var sb strings.Builder
		sb.WriteString("S{")
		for _, f := range v {
			fp, ok := fingerprint(f)
			if !ok {
				return "", false
			}
			fmt.Fprintf(&sb, "%d:%s,", len(fp), fp)
		}
		sb.WriteString("}")
		return sb.String(), true
	case array:
		var sb strings.Builder
		sb.WriteString("A[")
		for _, f := range v {
			fp, ok := fingerprint(f)
			if !ok {
				return "", false
			}
			fmt.Fprintf(&sb, "%d:%s,", len(fp), fp)
		}
		sb.WriteString("]")
		return sb.String(), true
	case *Chan:
		return fmt.Sprintf("c%p", v), true
	case *Map:
		return fmt.Sprintf("m%p", v), true
	case *closure:
		return fmt.Sprintf("k%p", v), true
	case *ssa.Function:
		return fmt.Sprintf("F%p", v), true
	case nil:
		return "nil", true
	}
	return fmt.Sprintf("?%T%v", v, v), true
}

// showValue renders a value for diagnostics and evidence samples.
func showValue(v value) string {
	switch v := v.(type) {
	case *Term:
		return v.String()
	case Str:
		if v.Concrete() {
			return fmt.Sprintf("%q", v.s)
		}
		parts := make([]string, len(v.b))
		for i, t := range v.b {
			parts[i] = t.String()
		}
		return "str[" + strings.Join(parts, ",") + "]"
	case structure:
		parts := make([]string, len(v))
		for i, f := range v {
			parts[i] = showValue(f)
		}
		return "{" + strings.Join(parts, " ") + "}"
	case array:
		parts := make([]string, len(v))
		for i, f := range v {
			parts[i] = showValue(f)
		}
		return "[" + strings.Join(parts, " ") + "]"
	case []value:
		if v == nil {
			return "[]nil"
		}
		parts := make([]string, len(v))
		for i := range v {
			parts[i] = showValue(v[i])
		}
		return "[]{" + strings.Join(parts, " ") + "}"
	case iface:
		if v.t == nil {
			return "iface(nil)"
		}
		return "iface(" + v.t.String() + ":" + showValue(v.v) + ")"
	case *value:
		if v == nil {
			return "ptr(nil)"
		}
		return "&" + showValue(*v)
	}
	return fmt.Sprintf("%T", v)
}
