package sym

import (
	"go/token"
	"go/types"
)

// Models of compression codecs as injective framings: enc(x) = magic ++ x ++ trailer.
// They stand in for compress/gzip and andybalholm/brotli where a property depends only on
// "decode(encode(x)) == x" and on lengths/headers, not on the compressed bytes.

type codecWriter struct {
	w    iface
	buf  []*Term
	kind string
}

type codecReader struct {
	data []*Term
	pos  int
	bad  bool
}

var codecMagic = map[string][2]string{
	"gzip":   {"\x1f\x8b\x08GZ", "ZG\x00"},
	"brotli": {"\xce\xb2\xcf\x81BR", "RB\x01"},
}

func (m *Machine) readAll(fr *frame, r iface) []*Term {
	var out []*Term
	for n := 0; n < 1<<16; n++ {
		buf := make([]value, 512)
		for i := range buf {
			buf[i] = m.T.Const(8, 0)
		}
		res := m.callMethod(fr, r, "Read", buf).(tuple)
		k := int(m.concretize(res[0].(*Term)))
		out = append(out, valuesToBytes(buf[:k])...)
		if e := res[1].(iface); e.t != nil {
			return out
		}
		if k == 0 {
			n += 1000
		}
	}
	panic(abort{"bound", "codec model: reader never reports EOF"})
}

func (m *Machine) newCodecReader(fr *frame, kind string, r iface) *value {
	data := m.readAll(fr, r)
	mg := codecMagic[kind]
	st := &codecReader{}
	ok := len(data) >= len(mg[0])+len(mg[1])
	if ok {
		cond := m.T.True
		for i := 0; i < len(mg[0]); i++ {
			cond = m.T.And(cond, m.T.Eq(data[i], m.T.Const(8, uint64(mg[0][i]))))
		}
		off := len(data) - len(mg[1])
		for i := 0; i < len(mg[1]); i++ {
			cond = m.T.And(cond, m.T.Eq(data[off+i], m.T.Const(8, uint64(mg[1][i]))))
		}
		ok = m.decide(cond)
	}
	if ok {
		st.data = data[len(mg[0]) : len(data)-len(mg[1])]
	} else {
		st.bad = true
	}
	var v value = opaque{"codecReader", st}
	return &v
}

func (m *Machine) errorsNew(fr *frame, msg string) iface {
	ep := m.Prog.ImportedPackage("errors")
	return m.call(fr, token.NoPos, ep.Func("New"), []value{conc(msg)}).(iface)
}

func (m *Machine) ioEOF() iface {
	iop := m.Prog.ImportedPackage("io")
	return (*m.global(iop.Var("EOF"))).(iface)
}

func registerCodecs(m *Machine) {
	in := m.intrinsics
	newWriter := func(kind string) intrinsic {
		return func(m *Machine, fr *frame, a []value) value {
			var v value = opaque{"codecWriter", &codecWriter{w: a[0].(iface), kind: kind}}
			return &v
		}
	}
	wWrite := func(m *Machine, fr *frame, a []value) value {
		st := (*a[0].(*value)).(opaque).data.(*codecWriter)
		p := valuesToBytes(a[1].([]value))
		old := st.buf
		st.buf = append(append([]*Term(nil), st.buf...), p...)
		if m.journaling {
			m.journal = append(m.journal, undo{f: func() { st.buf = old }})
		}
		return tuple{m.T.Const(64, uint64(len(p))), iface{}}
	}
	wClose := func(m *Machine, fr *frame, a []value) value {
		st := (*a[0].(*value)).(opaque).data.(*codecWriter)
		mg := codecMagic[st.kind]
		out := m.strBytes(conc(mg[0]))
		out = append(out, st.buf...)
		out = append(out, m.strBytes(conc(mg[1]))...)
		res := m.callMethod(fr, st.w, "Write", m.bytesToValues(out)).(tuple)
		return res[1]
	}
	rRead := func(m *Machine, fr *frame, a []value) value {
		st := (*a[0].(*value)).(opaque).data.(*codecReader)
		p := a[1].([]value)
		if st.bad {
			return tuple{m.T.Const(64, 0), m.errorsNew(fr, "codec model: invalid header")}
		}
		if st.pos >= len(st.data) {
			return tuple{m.T.Const(64, 0), m.ioEOF()}
		}
		n := len(st.data) - st.pos
		if n > len(p) {
			n = len(p)
		}
		for i := 0; i < n; i++ {
			m.store(&p[i], st.data[st.pos+i])
		}
		old := st.pos
		st.pos += n
		if m.journaling {
			m.journal = append(m.journal, undo{f: func() { st.pos = old }})
		}
		return tuple{m.T.Const(64, uint64(n)), iface{}}
	}
	in["compress/gzip.NewWriter"] = newWriter("gzip")
	in["(*compress/gzip.Writer).Write"] = wWrite
	in["(*compress/gzip.Writer).Close"] = wClose
	in["compress/gzip.NewReader"] = func(m *Machine, fr *frame, a []value) value {
		p := m.newCodecReader(fr, "gzip", a[0].(iface))
		if (*p).(opaque).data.(*codecReader).bad {
			return tuple{(*value)(nil), m.errorsNew(fr, "gzip: invalid header")}
		}
		return tuple{p, iface{}}
	}
	in["(*compress/gzip.Reader).Read"] = rRead
	in["(*compress/gzip.Reader).Close"] = func(m *Machine, fr *frame, a []value) value { return iface{} }
	const br = "github.com/andybalholm/brotli"
	in[br+".NewWriter"] = newWriter("brotli")
	in["(*"+br+".Writer).Write"] = wWrite
	in["(*"+br+".Writer).Close"] = wClose
	in[br+".NewReader"] = func(m *Machine, fr *frame, a []value) value {
		return m.newCodecReader(fr, "brotli", a[0].(iface))
	}
	in["(*"+br+".Reader).Read"] = rRead
}

var _ = types.Typ
