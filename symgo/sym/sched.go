package sym

import (
	"fmt"
	"go/token"
	"go/types"
	"os"
	"sync"

	"golang.org/x/tools/go/ssa"
)

// Symbolic scheduler: interpreted goroutines run one at a time (each on its own real
// goroutine, holding a baton); before every visible operation - channel send/receive/close,
// select, mutex lock, go, timer - the next goroutine to run is a nondeterministic choice
// explored like any other decision. Memory is sequentially consistent.

type goroutine struct {
	id      int
	resume  chan bool // true: run, false: die
	done    bool
	pending *pendingOp
	result  value
	name    string
	depth   int
}

type selCase struct {
	ch   *Chan
	send bool
	val  value
	et   types.Type
}

type pendingOp struct {
	kind    string // "yield", "send", "recv", "select", "lock"
	ch      *Chan
	val     value
	et      types.Type
	cases   []selCase
	hasDflt bool
	mu      *value
}

type vtimer struct {
	c     *Chan
	armed bool
	fires int
}

type scheduler struct {
	gs       []*goroutine
	cur      *goroutine
	locked   map[*value]bool
	timers   []*vtimer
	wg       sync.WaitGroup
	crashed  string // a goroutine other than main panicked
	deadlock bool
	ops      int
	preempts int // switches away from a goroutine that could have continued
}

const schedMaxOps = 400

var schedDebug = os.Getenv("SYMGO_SCHED_DEBUG") != ""

func (m *Machine) ensureSched() *scheduler {
	if m.sched == nil {
		main := &goroutine{id: 0, resume: make(chan bool), name: "main"}
		m.sched = &scheduler{gs: []*goroutine{main}, cur: main, locked: map[*value]bool{}}
	}
	return m.sched
}

// spawn starts an interpreted goroutine (parked until first scheduled).
func (m *Machine) spawn(fr *frame, pos token.Pos, fn value, args []value, name string) {
	s := m.ensureSched()
	g := &goroutine{id: len(s.gs), resume: make(chan bool), name: name}
	s.gs = append(s.gs, g)
	s.wg.Add(1)
	go func() {
		defer s.wg.Done()
		if ok := <-g.resume; !ok {
			g.done = true
			return
		}
		killed := false
		func() {
			defer func() {
				if r := recover(); r != nil {
					switch r := r.(type) {
					case abort:
						if r.kind == "killed" {
							killed = true
							return
						}
						// an engine-level abort inside a goroutine ends the whole path
						s.crashed = "abort:" + r.kind + ": " + r.msg
					case targetPanic:
						s.crashed = "panic in goroutine " + g.name + ": " + showValue(r.v)
					default:
						s.crashed = fmt.Sprintf("abort:engine: internal error in goroutine: %v", r)
					}
				}
			}()
			m.depth = 0
			m.call(nil, pos, fn, args)
		}()
		g.done = true
		if killed {
			return
		}
		if s.crashed != "" {
			// hand the baton to main, which ends the path
			main := s.gs[0]
			s.cur = main
			main.resume <- true
			return
		}
		m.exitGoroutine(g)
	}()
	// creating a goroutine is a scheduling point
	m.blockOn(&pendingOp{kind: "yield"})
}

func (m *Machine) exitGoroutine(g *goroutine) {
	s := m.sched
	for {
		next := m.pickNext(g)
		if next == nil {
			// nothing else can run: wake main to report (it is blocked or quiescing)
			s.deadlock = true
			main := s.gs[0]
			if main.done {
				return
			}
			s.cur = main
			main.resume <- true
			return
		}
		s.cur = next
		next.resume <- true
		return
	}
}

func (m *Machine) waitingRecv(c *Chan, except *goroutine) []*goroutine {
	var out []*goroutine
	for _, h := range m.sched.gs {
		if h == except || h.done || h.pending == nil {
			continue
		}
		switch h.pending.kind {
		case "recv":
			if h.pending.ch == c {
				out = append(out, h)
			}
		case "select":
			for _, cs := range h.pending.cases {
				if !cs.send && cs.ch == c {
					out = append(out, h)
					break
				}
			}
		}
	}
	return out
}

func (m *Machine) waitingSend(c *Chan, except *goroutine) []*goroutine {
	var out []*goroutine
	for _, h := range m.sched.gs {
		if h == except || h.done || h.pending == nil {
			continue
		}
		switch h.pending.kind {
		case "send":
			if h.pending.ch == c {
				out = append(out, h)
			}
		case "select":
			for _, cs := range h.pending.cases {
				if cs.send && cs.ch == c {
					out = append(out, h)
					break
				}
			}
		}
	}
	return out
}

func (m *Machine) canSend(c *Chan, g *goroutine) bool {
	if c == nil {
		return false
	}
	return c.closed || len(c.buf) < c.cap || len(m.waitingRecv(c, g)) > 0
}

func (m *Machine) canRecv(c *Chan, g *goroutine) bool {
	if c == nil {
		return false
	}
	return len(c.buf) > 0 || c.closed || len(m.waitingSend(c, g)) > 0
}

func (m *Machine) enabled(g *goroutine) bool {
	if g.done {
		return false
	}
	p := g.pending
	if p == nil {
		return true
	}
	switch p.kind {
	case "yield", "hyield":
		return true
	case "quiesce":
		// enabled only when nothing else can make progress
		for _, h := range m.sched.gs {
			if h != g && m.enabled(h) {
				return false
			}
		}
		for _, t := range m.sched.timers {
			if t.armed && t.fires > 0 && len(t.c.buf) == 0 && len(m.waitingRecv(t.c, nil)) > 0 {
				return false
			}
		}
		return true
	case "send":
		return m.canSend(p.ch, g)
	case "recv":
		return m.canRecv(p.ch, g)
	case "lock":
		return !m.sched.locked[p.mu]
	case "select":
		if p.hasDflt {
			return true
		}
		for _, cs := range p.cases {
			if cs.send && m.canSend(cs.ch, g) || !cs.send && m.canRecv(cs.ch, g) {
				return true
			}
		}
	}
	return false
}

// selectResult builds the tuple an ssa.Select yields.
func (m *Machine) selectResult(p *pendingOp, chosen int, recv value, recvOk bool) value {
	r := tuple{m.T.Const(64, uint64(int64(chosen))), m.T.Bool(recvOk)}
	for i, cs := range p.cases {
		if !cs.send {
			if i == chosen && recvOk {
				r = append(r, recv)
			} else {
				r = append(r, m.zero(cs.et))
			}
		}
	}
	return r
}

// deliver hands v to a goroutine blocked receiving on c.
func (m *Machine) deliver(h *goroutine, c *Chan, v value) {
	p := h.pending
	h.pending = nil
	if p.kind == "recv" {
		h.result = tuple{v, m.T.True}
		return
	}
	for i, cs := range p.cases {
		if !cs.send && cs.ch == c {
			h.result = m.selectResult(p, i, v, true)
			return
		}
	}
}

// takeFrom completes the send of a goroutine blocked sending on c and returns its value.
func (m *Machine) takeFrom(h *goroutine, c *Chan) value {
	p := h.pending
	h.pending = nil
	if p.kind == "send" {
		h.result = nil
		return p.val
	}
	for i, cs := range p.cases {
		if cs.send && cs.ch == c {
			h.result = m.selectResult(p, i, nil, false)
			return cs.val
		}
	}
	return nil
}

func (m *Machine) pickOne(hs []*goroutine) *goroutine {
	if len(hs) == 1 {
		return hs[0]
	}
	return hs[m.choose(len(hs))]
}

func (m *Machine) doSend(g *goroutine, c *Chan, v value) (panicMsg string) {
	if c.closed {
		return "send on closed channel"
	}
	if ws := m.waitingRecv(c, g); len(ws) > 0 && len(c.buf) == 0 {
		m.deliver(m.pickOne(ws), c, v)
		return ""
	}
	c.buf = append(c.buf, v)
	return ""
}

func (m *Machine) doRecv(g *goroutine, c *Chan, et types.Type) (value, bool) {
	if len(c.buf) > 0 {
		v := c.buf[0]
		c.buf = c.buf[1:]
		// a sender blocked on the full buffer can now proceed
		if ws := m.waitingSend(c, g); len(ws) > 0 {
			c.buf = append(c.buf, m.takeFrom(m.pickOne(ws), c))
		}
		return v, true
	}
	if ws := m.waitingSend(c, g); len(ws) > 0 && !c.closed {
		return m.takeFrom(m.pickOne(ws), c), true
	}
	return m.zero(et), false // closed
}

type schedPanic struct{ msg string }

// complete performs g's pending operation (it is enabled) and stores its result.
func (m *Machine) complete(g *goroutine) {
	p := g.pending
	if p == nil {
		return
	}
	g.pending = nil
	switch p.kind {
	case "yield", "hyield", "quiesce":
		g.result = nil
	case "send":
		if msg := m.doSend(g, p.ch, p.val); msg != "" {
			g.result = schedPanic{msg}
		} else {
			g.result = nil
		}
	case "recv":
		v, ok := m.doRecv(g, p.ch, p.et)
		g.result = tuple{v, m.T.Bool(ok)}
	case "lock":
		m.sched.locked[p.mu] = true
		g.result = nil
	case "select":
		var ready []int
		for i, cs := range p.cases {
			if cs.send && m.canSend(cs.ch, g) || !cs.send && m.canRecv(cs.ch, g) {
				ready = append(ready, i)
			}
		}
		if len(ready) == 0 {
			g.result = m.selectResult(p, -1, nil, false)
			return
		}
		i := ready[0]
		if len(ready) > 1 {
			i = ready[m.choose(len(ready))]
		}
		cs := p.cases[i]
		if cs.send {
			if msg := m.doSend(g, cs.ch, cs.val); msg != "" {
				g.result = schedPanic{msg}
			} else {
				g.result = m.selectResult(p, i, nil, false)
			}
		} else {
			v, ok := m.doRecv(g, cs.ch, cs.et)
			g.result = m.selectResult(p, i, v, ok)
		}
	}
}

// pickNext chooses the next goroutine to run among the enabled ones (firing timers on the
// way); nil if none is enabled.
func (m *Machine) pickNext(except *goroutine) *goroutine {
	s := m.sched
	for {
		var en []*goroutine
		curEnabled := false
		for _, g := range s.gs {
			if g != except && m.enabled(g) {
				en = append(en, g)
				if g == s.cur && except == nil {
					curEnabled = true
				}
			}
		}
		var armed []*vtimer
		for _, t := range s.timers {
			// a timer's firing is only observable by a goroutine waiting on its channel
			if t.armed && t.fires > 0 && len(t.c.buf) == 0 && len(m.waitingRecv(t.c, nil)) > 0 {
				armed = append(armed, t)
			}
		}
		// context bounding: once the preemption budget is used up, a goroutine that can
		// continue does continue (switches at blocking points stay free)
		if curEnabled && s.preempts >= m.preemptBound() && s.cur.pending != nil && s.cur.pending.kind != "hyield" && s.cur.pending.kind != "quiesce" {
			m.complete(s.cur)
			return s.cur
		}
		n := len(en) + len(armed)
		if n == 0 {
			return nil
		}
		k := 0
		if n > 1 {
			if schedDebug {
				kind := "-"
				if s.cur != nil && s.cur.pending != nil {
					kind = s.cur.pending.kind
				}
				fmt.Fprintf(os.Stderr, "CHOICE cur=%s kind=%s curEnabled=%v en=%d timers=%d except=%v\n", s.cur.name, kind, curEnabled, len(en), len(armed), except != nil)
			}
			k = int(m.choose(n))
		}
		if curEnabled && (k >= len(en) || en[k] != s.cur) && s.cur.pending != nil && s.cur.pending.kind != "hyield" && s.cur.pending.kind != "quiesce" {
			s.preempts++
		}
		if k >= len(en) {
			t := armed[k-len(en)]
			t.armed = false
			t.fires--
			tp := m.Prog.ImportedPackage("time")
			t.c.buf = append(t.c.buf, m.zero(tp.Type("Time").Type()))
			continue
		}
		g := en[k]
		m.complete(g)
		return g
	}
}

// blockOn is called by the running goroutine at a visible operation.
func (m *Machine) blockOn(p *pendingOp) value {
	s := m.sched
	cur := s.cur
	s.ops++
	if s.ops > schedMaxOps {
		panic(abort{"bound", fmt.Sprintf("more than %d scheduling points on one path", schedMaxOps)})
	}
	cur.pending = p
	cur.depth = m.depth
	next := m.pickNext(nil)
	if next == nil {
		s.deadlock = true
		if cur.id == 0 {
			panic(abort{"deadlock", "every goroutine is blocked"})
		}
		// hand over to main so that it reports the deadlock
		main := s.gs[0]
		s.cur = main
		main.resume <- true
		if ok := <-cur.resume; !ok {
			panic(abort{"killed", ""})
		}
	} else if next != cur {
		s.cur = next
		next.resume <- true
		if ok := <-cur.resume; !ok {
			panic(abort{"killed", ""})
		}
	}
	m.depth = cur.depth
	if cur.id == 0 {
		if s.crashed != "" {
			panic(abort{"crash", s.crashed})
		}
		if s.deadlock && cur.pending != nil {
			panic(abort{"deadlock", "every goroutine is blocked"})
		}
	}
	res := cur.result
	cur.result = nil
	if sp, ok := res.(schedPanic); ok {
		panic(rtPanic(sp.msg))
	}
	return res
}

// quiesce lets every other goroutine run until none is enabled; returns how many are
// still blocked (not finished).
func (m *Machine) quiesce() int {
	if m.sched == nil {
		return 0
	}
	s := m.sched
	m.blockOn(&pendingOp{kind: "quiesce"})
	blocked := 0
	for _, g := range s.gs[1:] {
		if !g.done {
			blocked++
		}
	}
	return blocked
}

// killGoroutines ends every parked goroutine at the end of a path.
func (m *Machine) killGoroutines() {
	s := m.sched
	if s == nil {
		return
	}
	for _, g := range s.gs[1:] {
		if !g.done {
			g.resume <- false
		}
	}
	s.wg.Wait()
	m.sched = nil
}

func registerSched(m *Machine) {
	in := m.intrinsics
	lock := func(m *Machine, fr *frame, a []value) value {
		if m.sched == nil {
			return nil
		}
		m.blockOn(&pendingOp{kind: "lock", mu: a[0].(*value)})
		return nil
	}
	unlock := func(m *Machine, fr *frame, a []value) value {
		if m.sched == nil {
			return nil
		}
		delete(m.sched.locked, a[0].(*value))
		return nil
	}
	in["(*sync.Mutex).Lock"] = lock
	in["(*sync.Mutex).Unlock"] = unlock
	in["(*sync.RWMutex).Lock"] = lock
	in["(*sync.RWMutex).Unlock"] = unlock
	in["(*sync.RWMutex).RLock"] = lock
	in["(*sync.RWMutex).RUnlock"] = unlock
	in["time.NewTimer"] = func(m *Machine, fr *frame, a []value) value {
		s := m.ensureSched()
		c := &Chan{cap: 1}
		s.timers = append(s.timers, &vtimer{c: c, armed: true, fires: m.timerFires()})
		var t value = structure{c, m.T.True}
		return &t
	}
	findTimer := func(m *Machine, p *value) *vtimer {
		c := (*p).(structure)[0].(*Chan)
		for _, t := range m.sched.timers {
			if t.c == c {
				return t
			}
		}
		return nil
	}
	in["(*time.Timer).Reset"] = func(m *Machine, fr *frame, a []value) value {
		t := findTimer(m, a[0].(*value))
		was := t.armed
		t.armed = true
		return m.T.Bool(was)
	}
	in["(*time.Timer).Stop"] = func(m *Machine, fr *frame, a []value) value {
		t := findTimer(m, a[0].(*value))
		was := t.armed
		t.armed = false
		return m.T.Bool(was)
	}
	in["sym:symQuiesce"] = func(m *Machine, fr *frame, a []value) value {
		return m.T.Const(64, uint64(m.quiesce()))
	}
	in["sym:symYield"] = func(m *Machine, fr *frame, a []value) value {
		if m.sched != nil {
			m.blockOn(&pendingOp{kind: "hyield"})
		}
		return nil
	}
}

func (m *Machine) preemptBound() int {
	if v, ok := m.Params["PREEMPT"]; ok {
		return int(v)
	}
	return 1 << 30
}

func (m *Machine) timerFires() int {
	if v, ok := m.Params["TIMER_FIRES"]; ok {
		return int(v)
	}
	return 1
}

var _ ssa.Value
