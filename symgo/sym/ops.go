package sym

import (
	"fmt"
	"go/constant"
	"go/token"
	"go/types"
	"unicode/utf8"

	"golang.org/x/tools/go/ssa"
)

func constantBool(c *ssa.Const) bool     { return constant.BoolVal(c.Value) }
func constantString(c *ssa.Const) string { return constant.StringVal(c.Value) }

func rtPanic(msg string) targetPanic {
	return targetPanic{iface{t: types.Typ[types.String], v: conc("runtime error: " + msg)}}
}

// symElem is the result of IndexAddr with a symbolic index whose only uses are loads.
type symElem struct {
	elems []value
	idx   *Term
}

func (m *Machine) unop(fr *frame, instr *ssa.UnOp, x value) value {
	switch instr.Op {
	case token.ARROW:
		return m.chanRecv(x.(*Chan), instr.CommaOk, instr.X.Type().Underlying().(*types.Chan).Elem())
	case token.MUL: // load
		switch p := x.(type) {
		case *value:
			if p == nil {
				panic(rtPanic("invalid memory address or nil pointer dereference"))
			}
			if ps, bad := (*p).(poison); bad {
				panic(unsupported("read of a value the partial package initialisation could not compute: " + ps.why))
			}
			return copyVal(*p)
		case symElem:
			return m.selectElem(p.elems, p.idx)
		}
		panic(abort{"engine", fmt.Sprintf("load from %T", x)})
	case token.NOT:
		return m.T.Not(x.(*Term))
	case token.SUB:
		switch x := x.(type) {
		case *Term:
			return m.T.Neg(x)
		case float64:
			return -x
		}
	case token.XOR:
		return m.T.BNot(x.(*Term))
	}
	panic(unsupported(fmt.Sprintf("unop %v on %T", instr.Op, x)))
}

// selectElem reads elems[idx] for a symbolic, in-range idx.
func (m *Machine) selectElem(elems []value, idx *Term) value {
	if idx.IsConst() {
		return copyVal(elems[idx.K])
	}
	allScalar := true
	for _, e := range elems {
		if t, ok := e.(*Term); !ok || !t.IsConst() {
			allScalar = false
			break
		}
	}
	if allScalar && len(elems) > 0 {
		// idx is known to be in range here, so it can be narrowed to the bits that matter.
		nw := 1
		for (1 << uint(nw)) < len(elems) {
			nw++
		}
		if nw < idx.W {
			idx = m.T.Resize(idx, nw, false)
		}
		// ite chain grouped by equal values; last group is the default.
		groups := map[*Term][]int{}
		var order []*Term
		for i, e := range elems {
			t := e.(*Term)
			if _, ok := groups[t]; !ok {
				order = append(order, t)
			}
			groups[t] = append(groups[t], i)
		}
		// put the largest group last (default branch)
		big := 0
		for i, t := range order {
			if len(groups[t]) > len(groups[order[big]]) {
				big = i
			}
		}
		order[big], order[len(order)-1] = order[len(order)-1], order[big]
		res := order[len(order)-1]
		for i := len(order) - 2; i >= 0; i-- {
			res = m.T.Ite(m.inSet(idx, groups[order[i]]), order[i], res)
		}
		return res
	}
	// table of concrete strings: fork only on the length, merge equal-length entries into one
	// string whose bytes are ite-terms over the index
	allStr := len(elems) > 0
	for _, e := range elems {
		if st, ok := e.(Str); !ok || !st.Concrete() {
			allStr = false
			break
		}
	}
	if allStr {
		byLen := map[int][]int{}
		var lens []int
		for i, e := range elems {
			n := e.(Str).Len()
			if _, ok := byLen[n]; !ok {
				lens = append(lens, n)
			}
			byLen[n] = append(byLen[n], i)
		}
		var chosen []int
		for k, n := range lens {
			if k == len(lens)-1 || m.decide(m.inSet(idx, byLen[n])) {
				chosen = byLen[n]
				break
			}
		}
		n := elems[chosen[0]].(Str).Len()
		same := true
		for _, i := range chosen[1:] {
			if elems[i].(Str).s != elems[chosen[0]].(Str).s {
				same = false
				break
			}
		}
		if same {
			return elems[chosen[0]]
		}
		bs := make([]*Term, n)
		for k := 0; k < n; k++ {
			col := make([]value, len(elems))
			dflt := m.T.Const(8, uint64(elems[chosen[0]].(Str).s[k]))
			for i := range col {
				col[i] = dflt
			}
			for _, i := range chosen {
				col[i] = m.T.Const(8, uint64(elems[i].(Str).s[k]))
			}
			bs[k] = m.selectElem(col, idx).(*Term)
		}
		return m.mkStr(bs)
	}
	// group by fingerprint; fork per class
	type class struct {
		rep  value
		idxs []int
	}
	var classes []*class
	byFP := map[string]*class{}
	for i, e := range elems {
		fp, ok := fingerprint(e)
		if !ok {
			fp = fmt.Sprintf("#%d", i) // symbolic element: its own class
		} else if s, isSlice := e.([]value); isSlice {
			fp = fmt.Sprintf("slice%p/%d", sliceData(s), len(s))
		}
		c := byFP[fp]
		if c == nil {
			c = &class{rep: e}
			byFP[fp] = c
			classes = append(classes, c)
		}
		c.idxs = append(c.idxs, i)
	}
	for i, c := range classes {
		if i == len(classes)-1 {
			return copyVal(c.rep)
		}
		if m.decide(m.inSet(idx, c.idxs)) {
			return copyVal(c.rep)
		}
	}
	panic(abort{"engine", "selectElem: no class"})
}

func sliceData(s []value) *value {
	if cap(s) == 0 {
		return nil
	}
	return &s[:1][0]
}

// inSet builds idx ∈ {k...} using ranges where possible.
func (m *Machine) inSet(idx *Term, ks []int) *Term {
	res := m.T.False
	i := 0
	for i < len(ks) {
		j := i
		for j+1 < len(ks) && ks[j+1] == ks[j]+1 {
			j++
		}
		var c *Term
		if j == i {
			c = m.T.Eq(idx, m.T.Const(idx.W, uint64(ks[i])))
		} else {
			lo := m.T.Bin(OpUle, m.T.Const(idx.W, uint64(ks[i])), idx)
			hi := m.T.Bin(OpUle, idx, m.T.Const(idx.W, uint64(ks[j])))
			c = m.T.And(lo, hi)
		}
		res = m.T.Or(res, c)
		i = j + 1
	}
	return res
}

func (m *Machine) binop(op token.Token, t types.Type, x, y value) value {
	switch xv := x.(type) {
	case *Term:
		yv := y.(*Term)
		if xv.W == 0 { // bool
			switch op {
			case token.EQL:
				return m.T.Eq(xv, yv)
			case token.NEQ:
				return m.T.Not(m.T.Eq(xv, yv))
			case token.AND:
				return m.T.And(xv, yv)
			case token.OR:
				return m.T.Or(xv, yv)
			}
			panic(unsupported("bool binop " + op.String()))
		}
		signed := isSigned(t)
		switch op {
		case token.ADD:
			return m.T.Bin(OpAdd, xv, yv)
		case token.SUB:
			return m.T.Bin(OpSub, xv, yv)
		case token.MUL:
			return m.T.Bin(OpMul, xv, yv)
		case token.QUO, token.REM:
			if m.decide(m.T.Eq(yv, m.T.Const(yv.W, 0))) {
				panic(rtPanic("integer divide by zero"))
			}
			if op == token.QUO {
				if signed {
					return m.T.Bin(OpSDiv, xv, yv)
				}
				return m.T.Bin(OpUDiv, xv, yv)
			}
			if signed {
				return m.T.Bin(OpSRem, xv, yv)
			}
			return m.T.Bin(OpURem, xv, yv)
		case token.AND:
			return m.T.Bin(OpBAnd, xv, yv)
		case token.OR:
			return m.T.Bin(OpBOr, xv, yv)
		case token.XOR:
			return m.T.Bin(OpBXor, xv, yv)
		case token.AND_NOT:
			return m.T.Bin(OpBAnd, xv, m.T.BNot(yv))
		case token.SHL, token.SHR:
			// shift count has its own (unsigned or signed) type; bring to x's width, saturating.
			cnt := yv
			if cnt.W > xv.W {
				// if any high bit is set the count is >= width
				big := m.T.Bin(OpUle, m.T.Const(cnt.W, uint64(xv.W)), cnt)
				small := m.T.Resize(cnt, xv.W, false)
				cnt = m.T.Ite(big, m.T.Const(xv.W, uint64(xv.W)), small)
			} else if cnt.W < xv.W {
				cnt = m.T.Resize(cnt, xv.W, false)
			}
			if op == token.SHL {
				return m.T.Bin(OpShl, xv, cnt)
			}
			if signed {
				return m.T.Bin(OpAShr, xv, cnt)
			}
			return m.T.Bin(OpLShr, xv, cnt)
		case token.EQL:
			return m.T.Eq(xv, yv)
		case token.NEQ:
			return m.T.Not(m.T.Eq(xv, yv))
		case token.LSS:
			if signed {
				return m.T.Bin(OpSlt, xv, yv)
			}
			return m.T.Bin(OpUlt, xv, yv)
		case token.LEQ:
			if signed {
				return m.T.Bin(OpSle, xv, yv)
			}
			return m.T.Bin(OpUle, xv, yv)
		case token.GTR:
			if signed {
				return m.T.Bin(OpSlt, yv, xv)
			}
			return m.T.Bin(OpUlt, yv, xv)
		case token.GEQ:
			if signed {
				return m.T.Bin(OpSle, yv, xv)
			}
			return m.T.Bin(OpUle, yv, xv)
		}
	case float64:
		yv := y.(float64)
		switch op {
		case token.ADD:
			return xv + yv
		case token.SUB:
			return xv - yv
		case token.MUL:
			return xv * yv
		case token.QUO:
			return xv / yv
		case token.EQL:
			return m.T.Bool(xv == yv)
		case token.NEQ:
			return m.T.Bool(xv != yv)
		case token.LSS:
			return m.T.Bool(xv < yv)
		case token.LEQ:
			return m.T.Bool(xv <= yv)
		case token.GTR:
			return m.T.Bool(xv > yv)
		case token.GEQ:
			return m.T.Bool(xv >= yv)
		}
	case Str:
		yv := y.(Str)
		switch op {
		case token.ADD:
			return m.strConcat(xv, yv)
		case token.EQL:
			return m.strEq(xv, yv)
		case token.NEQ:
			return m.T.Not(m.strEq(xv, yv))
		case token.LSS:
			return m.strLess(xv, yv, false)
		case token.LEQ:
			return m.strLess(xv, yv, true)
		case token.GTR:
			return m.strLess(yv, xv, false)
		case token.GEQ:
			return m.strLess(yv, xv, true)
		}
	}
	switch op {
	case token.EQL:
		return m.equals(t, x, y)
	case token.NEQ:
		return m.T.Not(m.equals(t, x, y))
	}
	panic(unsupported(fmt.Sprintf("binop %v on %T,%T", op, x, y)))
}

func (m *Machine) strConcat(a, b Str) Str {
	if a.Concrete() && b.Concrete() {
		return conc(a.s + b.s)
	}
	ab, bb := m.strBytes(a), m.strBytes(b)
	out := make([]*Term, 0, len(ab)+len(bb))
	out = append(out, ab...)
	out = append(out, bb...)
	return Str{b: out}
}

func (m *Machine) strEq(a, b Str) *Term {
	if a.Len() != b.Len() {
		return m.T.False
	}
	if a.Concrete() && b.Concrete() {
		return m.T.Bool(a.s == b.s)
	}
	ab, bb := m.strBytes(a), m.strBytes(b)
	res := m.T.True
	for i := range ab {
		res = m.T.And(res, m.T.Eq(ab[i], bb[i]))
		if res == m.T.False {
			return res
		}
	}
	return res
}

// strLess builds a < b (or a <= b) lexicographically.
func (m *Machine) strLess(a, b Str, orEq bool) *Term {
	if a.Concrete() && b.Concrete() {
		if orEq {
			return m.T.Bool(a.s <= b.s)
		}
		return m.T.Bool(a.s < b.s)
	}
	ab, bb := m.strBytes(a), m.strBytes(b)
	n := len(ab)
	if len(bb) < n {
		n = len(bb)
	}
	// tail: all common bytes equal
	var res *Term
	if len(ab) < len(bb) {
		res = m.T.True
	} else if len(ab) == len(bb) {
		res = m.T.Bool(orEq)
	} else {
		res = m.T.False
	}
	for i := n - 1; i >= 0; i-- {
		lt := m.T.Bin(OpUlt, ab[i], bb[i])
		eq := m.T.Eq(ab[i], bb[i])
		res = m.T.Or(lt, m.T.And(eq, res))
	}
	return res
}

// equals implements == for non-scalar, non-string operands.
func (m *Machine) equals(t types.Type, x, y value) *Term {
	switch x := x.(type) {
	case *Term:
		return m.T.Eq(x, y.(*Term))
	case Str:
		return m.strEq(x, y.(Str))
	case float64:
		return m.T.Bool(x == y.(float64))
	case *value:
		return m.T.Bool(x == y.(*value))
	case *Map:
		return m.T.Bool(x == y.(*Map))
	case *Chan:
		return m.T.Bool(x == y.(*Chan))
	case []value:
		// only comparison with nil is legal
		yv, _ := y.([]value)
		return m.T.Bool((x == nil) == (yv == nil) && (x == nil || yv == nil))
	case *ssa.Function:
		if yf, ok := y.(*ssa.Function); ok {
			return m.T.Bool(x == yf)
		}
		return m.T.Bool(x == nil && isNilFunc(y))
	case *closure:
		if yc, ok := y.(*closure); ok {
			return m.T.Bool(x == yc)
		}
		return m.T.Bool(x == nil && isNilFunc(y))
	case structure:
		yv := y.(structure)
		res := m.T.True
		st := t.Underlying().(*types.Struct)
		for i := range x {
			res = m.T.And(res, m.equals(st.Field(i).Type(), x[i], yv[i]))
		}
		return res
	case array:
		yv := y.(array)
		res := m.T.True
		et := t.Underlying().(*types.Array).Elem()
		for i := range x {
			res = m.T.And(res, m.equals(et, x[i], yv[i]))
		}
		return res
	case iface:
		yv := y.(iface)
		if x.t == nil || yv.t == nil {
			return m.T.Bool(x.t == nil && yv.t == nil)
		}
		if !types.Identical(x.t, yv.t) {
			return m.T.False
		}
		return m.equals(x.t, x.v, yv.v)
	case opaque:
		yo, ok := y.(opaque)
		if !ok || yo.kind != x.kind {
			return m.T.False
		}
		if xt, ok := x.data.(types.Type); ok {
			return m.T.Bool(types.Identical(xt, yo.data.(types.Type)))
		}
		return m.T.Bool(x.data == yo.data)
	case nil:
		return m.T.Bool(y == nil)
	}
	panic(unsupported(fmt.Sprintf("equality on %T", x)))
}

func isNilFunc(v value) bool {
	switch v := v.(type) {
	case *ssa.Function:
		return v == nil
	case *closure:
		return v == nil
	case nil:
		return true
	}
	return false
}

func (m *Machine) conv(dst, src types.Type, x value) value {
	ud, us := dst.Underlying(), src.Underlying()
	switch us := us.(type) {
	case *types.Pointer:
		return x // pointer <-> unsafe.Pointer
	case *types.Slice:
		// []byte or []rune -> string
		if isString(ud) {
			s := x.([]value)
			if bt, ok := us.Elem().Underlying().(*types.Basic); ok && bt.Kind() == types.Int32 {
				var out []*Term
				for _, r := range s {
					out = append(out, m.encodeRune(r.(*Term))...)
				}
				return m.mkStr(out)
			}
			b := make([]*Term, len(s))
			for i, e := range s {
				b[i] = e.(*Term)
			}
			return m.mkStr(b)
		}
		return x
	case *types.Basic:
		if us.Kind() == types.UnsafePointer {
			return x
		}
		if us.Info()&types.IsString != 0 {
			s := x.(Str)
			switch ud := ud.(type) {
			case *types.Basic:
				return s
			case *types.Slice:
				if bt := ud.Elem().Underlying().(*types.Basic); bt.Kind() == types.Int32 {
					// []rune(s)
					var out []value
					it := &strIter{s: m.strBytes(s)}
					for it.pos < len(it.s) {
						r, n := m.decodeRune(it.s[it.pos:])
						out = append(out, r)
						it.pos += n
					}
					return out
				}
				bs := m.strBytes(s)
				out := make([]value, len(bs))
				for i, b := range bs {
					out[i] = b
				}
				return out
			}
		}
		if us.Info()&types.IsInteger != 0 {
			xt := x.(*Term)
			if db, ok := ud.(*types.Basic); ok {
				switch {
				case db.Info()&types.IsInteger != 0:
					return m.T.Resize(xt, m.width(db), isSigned(us))
				case db.Info()&types.IsString != 0:
					// string(rune)
					return m.mkStr(m.encodeRune(m.T.Resize(xt, 32, isSigned(us))))
				case db.Info()&types.IsFloat != 0:
					c := m.concretize(xt)
					if isSigned(us) {
						return float64(sext(c, xt.W))
					}
					return float64(c)
				case db.Kind() == types.UnsafePointer:
					panic(unsupported("integer to unsafe.Pointer conversion"))
				}
			}
		}
		if us.Info()&types.IsFloat != 0 {
			f := x.(float64)
			if db, ok := ud.(*types.Basic); ok {
				switch {
				case db.Info()&types.IsFloat != 0:
					if db.Kind() == types.Float32 {
						return float64(float32(f))
					}
					return f
				case db.Info()&types.IsInteger != 0:
					if isSigned(db) {
						return m.T.Const(m.width(db), uint64(int64(f)))
					}
					return m.T.Const(m.width(db), uint64(f))
				}
			}
		}
	}
	panic(unsupported(fmt.Sprintf("conversion %s -> %s", src, dst)))
}

// encodeRune returns the UTF-8 bytes of rune r (32-bit term), forking on its size class.
func (m *Machine) encodeRune(r *Term) []*Term {
	if r.IsConst() {
		var buf [4]byte
		n := utf8.EncodeRune(buf[:], rune(int32(r.K)))
		out := make([]*Term, n)
		for i := 0; i < n; i++ {
			out[i] = m.T.Const(8, uint64(buf[i]))
		}
		return out
	}
	c := func(v uint64) *Term { return m.T.Const(32, v) }
	b := func(t *Term) *Term { return m.T.Resize(t, 8, false) }
	shr := func(t *Term, n uint64) *Term { return m.T.Bin(OpLShr, t, c(n)) }
	and := func(t *Term, k uint64) *Term { return m.T.Bin(OpBAnd, t, c(k)) }
	or := func(t *Term, k uint64) *Term { return m.T.Bin(OpBOr, t, c(k)) }
	if m.decide(m.T.Bin(OpUlt, r, c(0x80))) {
		return []*Term{b(r)}
	}
	if m.decide(m.T.Bin(OpUlt, r, c(0x800))) {
		return []*Term{b(or(shr(r, 6), 0xC0)), b(or(and(r, 0x3F), 0x80))}
	}
	// invalid: surrogates or > MaxRune (negative values are huge unsigned) -> U+FFFD
	surr := m.T.And(m.T.Bin(OpUle, c(0xD800), r), m.T.Bin(OpUle, r, c(0xDFFF)))
	big := m.T.Bin(OpUlt, c(0x10FFFF), r)
	if m.decide(m.T.Or(surr, big)) {
		return []*Term{m.T.Const(8, 0xEF), m.T.Const(8, 0xBF), m.T.Const(8, 0xBD)}
	}
	if m.decide(m.T.Bin(OpUlt, r, c(0x10000))) {
		return []*Term{b(or(shr(r, 12), 0xE0)), b(or(and(shr(r, 6), 0x3F), 0x80)), b(or(and(r, 0x3F), 0x80))}
	}
	return []*Term{b(or(shr(r, 18), 0xF0)), b(or(and(shr(r, 12), 0x3F), 0x80)), b(or(and(shr(r, 6), 0x3F), 0x80)), b(or(and(r, 0x3F), 0x80))}
}

// decodeRune decodes the first rune of s (len(s) > 0) as the Go runtime does for range/[]rune.
func (m *Machine) decodeRune(s []*Term) (*Term, int) {
	allConst := true
	lim := len(s)
	if lim > 4 {
		lim = 4
	}
	for _, t := range s[:lim] {
		if !t.IsConst() {
			allConst = false
		}
	}
	if allConst {
		var buf [4]byte
		for i := 0; i < lim; i++ {
			buf[i] = byte(s[i].K)
		}
		r, n := utf8.DecodeRune(buf[:lim])
		return m.T.Const(32, uint64(uint32(r))), n
	}
	c8 := func(v uint64) *Term { return m.T.Const(8, v) }
	z := func(t *Term) *Term { return m.T.Resize(t, 32, false) }
	c32 := func(v uint64) *Term { return m.T.Const(32, v) }
	rng := func(t *Term, lo, hi uint64) *Term {
		return m.T.And(m.T.Bin(OpUle, c8(lo), t), m.T.Bin(OpUle, t, c8(hi)))
	}
	cont := func(t *Term) *Term { return rng(t, 0x80, 0xBF) }
	low6 := func(t *Term) *Term { return m.T.Bin(OpBAnd, z(t), c32(0x3F)) }
	shl := func(t *Term, n uint64) *Term { return m.T.Bin(OpShl, t, c32(n)) }
	orr := func(a, b *Term) *Term { return m.T.Bin(OpBOr, a, b) }
	rerr := c32(0xFFFD)
	b0 := s[0]
	if m.decide(m.T.Bin(OpUlt, b0, c8(0x80))) {
		return z(b0), 1
	}
	// two-byte: C2..DF
	if m.decide(rng(b0, 0xC2, 0xDF)) {
		if len(s) < 2 || !m.decide(cont(s[1])) {
			return rerr, 1
		}
		return orr(shl(m.T.Bin(OpBAnd, z(b0), c32(0x1F)), 6), low6(s[1])), 2
	}
	// three-byte: E0..EF with restricted second byte
	if m.decide(rng(b0, 0xE0, 0xEF)) {
		if len(s) < 3 {
			return rerr, 1
		}
		lo := m.T.Ite(m.T.Eq(b0, c8(0xE0)), c8(0xA0), c8(0x80))
		hi := m.T.Ite(m.T.Eq(b0, c8(0xED)), c8(0x9F), c8(0xBF))
		ok1 := m.T.And(m.T.Bin(OpUle, lo, s[1]), m.T.Bin(OpUle, s[1], hi))
		if !m.decide(ok1) || !m.decide(cont(s[2])) {
			return rerr, 1
		}
		r := orr(orr(shl(m.T.Bin(OpBAnd, z(b0), c32(0x0F)), 12), shl(low6(s[1]), 6)), low6(s[2]))
		return r, 3
	}
	// four-byte: F0..F4
	if m.decide(rng(b0, 0xF0, 0xF4)) {
		if len(s) < 4 {
			return rerr, 1
		}
		lo := m.T.Ite(m.T.Eq(b0, c8(0xF0)), c8(0x90), c8(0x80))
		hi := m.T.Ite(m.T.Eq(b0, c8(0xF4)), c8(0x8F), c8(0xBF))
		ok1 := m.T.And(m.T.Bin(OpUle, lo, s[1]), m.T.Bin(OpUle, s[1], hi))
		if !m.decide(ok1) || !m.decide(cont(s[2])) || !m.decide(cont(s[3])) {
			return rerr, 1
		}
		r := orr(orr(orr(shl(m.T.Bin(OpBAnd, z(b0), c32(0x07)), 18), shl(low6(s[1]), 12)), shl(low6(s[2]), 6)), low6(s[3]))
		return r, 4
	}
	return rerr, 1
}

func (m *Machine) sliceOp(instr *ssa.Slice, x, lo, hi, max value) value {
	var length, capacity int
	var str Str
	var sl []value
	isStr := false
	switch x := x.(type) {
	case Str:
		isStr = true
		str = x
		length = x.Len()
		capacity = length
	case []value:
		sl = x
		length = len(x)
		capacity = cap(x)
	case *value: // *array
		if x == nil {
			panic(rtPanic("slice of nil array pointer"))
		}
		a := (*x).(array)
		sl = []value(a)
		length = len(a)
		capacity = len(a)
	default:
		panic(unsupported(fmt.Sprintf("slice of %T", x)))
	}
	l, h, mx := 0, length, capacity
	if isStr {
		// high defaults to len for strings
	} else if _, isSlice := x.([]value); isSlice {
		h = length
	}
	if lo != nil {
		l = m.boundInt(lo.(*Term), capacity)
	}
	if hi != nil {
		h = m.boundInt(hi.(*Term), capacity)
	}
	if max != nil {
		mx = m.boundInt(max.(*Term), capacity)
	}
	if l > h || h > mx {
		panic(rtPanic(fmt.Sprintf("slice bounds out of range [%d:%d:%d] with capacity %d", l, h, mx, capacity)))
	}
	if isStr {
		if h > length {
			panic(rtPanic(fmt.Sprintf("slice bounds out of range [:%d] with length %d", h, length)))
		}
		if str.Concrete() {
			return conc(str.s[l:h])
		}
		return m.mkStr(str.b[l:h])
	}
	if sl == nil && l == 0 && h == 0 {
		return []value(nil)
	}
	return sl[l:h:mx]
}

// boundInt concretises a slice bound, raising the Go panic when it is out of [0, limit].
func (m *Machine) boundInt(t *Term, limit int) int {
	if t.IsConst() {
		v := sext(t.K, t.W)
		if v < 0 || v > int64(limit) {
			panic(rtPanic(fmt.Sprintf("slice bounds out of range [%d] with capacity %d", v, limit)))
		}
		return int(v)
	}
	t64 := m.T.Resize(t, 64, true)
	if !m.decide(m.T.Bin(OpUle, t64, m.T.Const(64, uint64(limit)))) {
		panic(rtPanic("slice bounds out of range (symbolic bound)"))
	}
	return int(m.concretize(t64))
}

// checkIndex forks on idx being in [0,n); returns after asserting it is in range.
func (m *Machine) checkIndex(idx *Term, signed bool, n int) {
	i64 := m.T.Resize(idx, 64, signed) // negative signed index -> huge unsigned -> out of range
	if !m.decide(m.T.Bin(OpUlt, i64, m.T.Const(64, uint64(n)))) {
		if idx.IsConst() {
			panic(rtPanic(fmt.Sprintf("index out of range [%d] with length %d", sext(idx.K, idx.W), n)))
		}
		panic(rtPanic(fmt.Sprintf("index out of range [symbolic] with length %d", n)))
	}
}

func onlyLoads(instr *ssa.IndexAddr) bool {
	refs := instr.Referrers()
	if refs == nil || len(*refs) == 0 {
		return false
	}
	for _, r := range *refs {
		u, ok := r.(*ssa.UnOp)
		if !ok || u.Op != token.MUL {
			if _, isDbg := r.(*ssa.DebugRef); isDbg {
				continue
			}
			return false
		}
	}
	return true
}

func (m *Machine) indexAddr(instr *ssa.IndexAddr, x value, idx *Term) value {
	signed := isSigned(instr.Index.Type())
	var elems []value
	switch x := x.(type) {
	case []value:
		elems = x
	case *value:
		if x == nil {
			panic(rtPanic("invalid memory address or nil pointer dereference"))
		}
		elems = []value((*x).(array))
	default:
		panic(unsupported(fmt.Sprintf("IndexAddr on %T", x)))
	}
	m.checkIndex(idx, signed, len(elems))
	if idx.IsConst() {
		return &elems[idx.K]
	}
	if onlyLoads(instr) {
		return symElem{elems: elems, idx: m.T.Resize(idx, 64, signed)}
	}
	return &elems[m.concretize(idx)]
}

func (m *Machine) index(x value, idx *Term, signed bool) value {
	switch x := x.(type) {
	case array:
		m.checkIndex(idx, signed, len(x))
		return m.selectElem([]value(x), m.T.Resize(idx, 64, signed))
	case Str:
		m.checkIndex(idx, signed, x.Len())
		if idx.IsConst() {
			if x.Concrete() {
				return m.T.Const(8, uint64(x.s[idx.K]))
			}
			return x.b[idx.K]
		}
		bs := m.strBytes(x)
		elems := make([]value, len(bs))
		for i, b := range bs {
			elems[i] = b
		}
		i64 := m.T.Resize(idx, 64, signed)
		// bytes may be symbolic: build an ite chain directly
		res := bs[len(bs)-1]
		for i := len(bs) - 2; i >= 0; i-- {
			res = m.T.Ite(m.T.Eq(i64, m.T.Const(64, uint64(i))), bs[i], res)
		}
		return res
	}
	panic(unsupported(fmt.Sprintf("Index on %T", x)))
}

func (m *Machine) typeAssert(instr *ssa.TypeAssert, itf iface) value {
	var v value
	ok := false
	if _, isItf := instr.AssertedType.Underlying().(*types.Interface); isItf {
		if itf.t != nil {
			it := instr.AssertedType.Underlying().(*types.Interface)
			if types.Implements(itf.t, it) {
				v = itf
				ok = true
			}
		}
	} else if itf.t != nil && types.Identical(itf.t, instr.AssertedType) {
		v = itf.v
		ok = true
	}
	if !ok {
		if !instr.CommaOk {
			from := "nil"
			if itf.t != nil {
				from = itf.t.String()
			}
			panic(rtPanic("interface conversion: interface is " + from + ", not " + instr.AssertedType.String()))
		}
		v = m.zero(instr.AssertedType)
	}
	if instr.CommaOk {
		return tuple{v, m.T.Bool(ok)}
	}
	return v
}

// ---- maps ----

func (m *Machine) mapFind(mp *Map, key value) int {
	if mp == nil {
		return -1
	}
	fp, concrete := fingerprint(key)
	if concrete && !mp.symKeys {
		if i, ok := mp.index[fp]; ok && !mp.dead[i] {
			return i
		}
		return -1
	}
	// symbolic comparison against every live key
	for i, k := range mp.keys {
		if mp.dead[i] {
			continue
		}
		if m.decide(m.keyEq(k, key)) {
			return i
		}
	}
	return -1
}

func (m *Machine) keyEq(a, b value) *Term {
	switch a := a.(type) {
	case *Term:
		return m.T.Eq(a, b.(*Term))
	case Str:
		return m.strEq(a, b.(Str))
	case iface:
		bi := b.(iface)
		if a.t == nil || bi.t == nil {
			return m.T.Bool(a.t == nil && bi.t == nil)
		}
		if !types.Identical(a.t, bi.t) {
			return m.T.False
		}
		return m.keyEq(a.v, bi.v)
	case structure:
		bs := b.(structure)
		res := m.T.True
		for i := range a {
			res = m.T.And(res, m.keyEq(a[i], bs[i]))
		}
		return res
	case array:
		bs := b.(array)
		res := m.T.True
		for i := range a {
			res = m.T.And(res, m.keyEq(a[i], bs[i]))
		}
		return res
	}
	fa, _ := fingerprint(a)
	fb, _ := fingerprint(b)
	return m.T.Bool(fa == fb)
}

func (m *Machine) mapSet(mp *Map, key, val value) {
	i := m.mapFind(mp, key)
	if i >= 0 {
		old := mp.vals[i]
		if m.journaling {
			m.journal = append(m.journal, undo{f: func() { mp.vals[i] = old }})
		}
		mp.vals[i] = copyVal(val)
		return
	}
	fp, concrete := fingerprint(key)
	if !concrete {
		mp.symKeys = true
	}
	mp.keys = append(mp.keys, copyVal(key))
	mp.vals = append(mp.vals, copyVal(val))
	mp.dead = append(mp.dead, false)
	slot := len(mp.keys) - 1
	if concrete {
		mp.index[fp] = slot
	}
	mp.n++
	if m.journaling {
		wasSym := mp.symKeys && concrete
		_ = wasSym
		m.journal = append(m.journal, undo{f: func() {
			mp.keys = mp.keys[:slot]
			mp.vals = mp.vals[:slot]
			mp.dead = mp.dead[:slot]
			if concrete {
				delete(mp.index, fp)
			}
			mp.n--
		}})
	}
}

func (m *Machine) mapDelete(mp *Map, key value) {
	i := m.mapFind(mp, key)
	if i < 0 {
		return
	}
	mp.dead[i] = true
	mp.n--
	fp, concrete := fingerprint(mp.keys[i])
	if concrete {
		delete(mp.index, fp)
	}
	if m.journaling {
		m.journal = append(m.journal, undo{f: func() {
			mp.dead[i] = false
			mp.n++
			if concrete {
				mp.index[fp] = i
			}
		}})
	}
}

func (m *Machine) lookup(instr *ssa.Lookup, x, key value) value {
	switch x := x.(type) {
	case *Map:
		var v value
		ok := false
		if i := m.mapFind(x, key); i >= 0 {
			v = copyVal(x.vals[i])
			ok = true
		} else {
			v = m.zero(instr.X.Type().Underlying().(*types.Map).Elem())
		}
		if instr.CommaOk {
			return tuple{v, m.T.Bool(ok)}
		}
		return v
	case Str:
		return m.index(x, key.(*Term), isSigned(instr.Index.Type()))
	}
	panic(unsupported(fmt.Sprintf("Lookup on %T", x)))
}

// ---- iteration ----

type iter interface {
	next(m *Machine) tuple
}

type strIter struct {
	s   []*Term
	pos int
}

func (it *strIter) next(m *Machine) tuple {
	if it.pos >= len(it.s) {
		return tuple{m.T.False, m.T.Const(64, 0), m.T.Const(32, 0)}
	}
	at := it.pos
	r, n := m.decodeRune(it.s[it.pos:])
	it.pos += n
	return tuple{m.T.True, m.T.Const(64, uint64(at)), r}
}

type mapIter struct {
	mp    *Map
	order []int
	pos   int
	kz    value
	vz    value
}

func (it *mapIter) next(m *Machine) tuple {
	for it.pos < len(it.order) {
		i := it.order[it.pos]
		it.pos++
		if i < len(it.mp.keys) && !it.mp.dead[i] {
			return tuple{m.T.True, copyVal(it.mp.keys[i]), copyVal(it.mp.vals[i])}
		}
	}
	return tuple{m.T.False, it.kz, it.vz}
}

func (m *Machine) rangeIter(x value, t types.Type) iter {
	switch x := x.(type) {
	case Str:
		return &strIter{s: m.strBytes(x)}
	case *Map:
		mt := t.Underlying().(*types.Map)
		it := &mapIter{mp: x, kz: m.zero(mt.Key()), vz: m.zero(mt.Elem())}
		if x != nil {
			var live []int
			for i := range x.keys {
				if !x.dead[i] {
					live = append(live, i)
				}
			}
			// nondeterministic rotation models Go's randomised iteration start
			rot := 0
			if len(live) > 1 && m.path != nil && m.path.MapOrderNondet {
				rot = int(m.choose(len(live)))
			}
			for k := range live {
				it.order = append(it.order, live[(k+rot)%len(live)])
			}
		}
		return it
	}
	panic(unsupported(fmt.Sprintf("range over %T", x)))
}

// ---- channels (single goroutine) ----

func (m *Machine) chanSend(c *Chan, v value) {
	if m.sched != nil {
		m.blockOn(&pendingOp{kind: "send", ch: c, val: v})
		return
	}
	if c == nil {
		panic(abort{"engine", "send on nil channel blocks forever"})
	}
	if c.closed {
		panic(rtPanic("send on closed channel"))
	}
	if len(c.buf) >= c.cap {
		panic(abort{"unsupported", "send would block (no scheduler in this build)"})
	}
	c.buf = append(c.buf, v)
}

func (m *Machine) chanRecv(c *Chan, commaOk bool, et types.Type) value {
	if m.sched != nil {
		r := m.blockOn(&pendingOp{kind: "recv", ch: c, et: et}).(tuple)
		if commaOk {
			return r
		}
		return r[0]
	}
	if c == nil {
		panic(abort{"engine", "receive on nil channel blocks forever"})
	}
	var v value
	ok := true
	if len(c.buf) > 0 {
		v = c.buf[0]
		c.buf = c.buf[1:]
	} else if c.closed {
		v = m.zero(et)
		ok = false
	} else {
		panic(abort{"unsupported", "receive would block (no scheduler in this build)"})
	}
	if commaOk {
		return tuple{v, m.T.Bool(ok)}
	}
	return v
}

func (m *Machine) selectOp(fr *frame, instr *ssa.Select) value {
	if m.sched != nil {
		p := &pendingOp{kind: "select", hasDflt: !instr.Blocking}
		for _, st := range instr.States {
			c, _ := fr.get(st.Chan).(*Chan)
			cs := selCase{ch: c, send: st.Dir == types.SendOnly, et: st.Chan.Type().Underlying().(*types.Chan).Elem()}
			if cs.send {
				cs.val = fr.get(st.Send)
			}
			p.cases = append(p.cases, cs)
		}
		return m.blockOn(p)
	}
	// single-goroutine semantics: first ready case, else default, else unsupported.
	chosen := -1
	var recv value
	recvOk := false
	for i, st := range instr.States {
		c := fr.get(st.Chan).(*Chan)
		if c == nil {
			continue
		}
		if st.Dir == types.RecvOnly {
			if len(c.buf) > 0 || c.closed {
				chosen = i
				r := m.chanRecv(c, true, st.Chan.Type().Underlying().(*types.Chan).Elem()).(tuple)
				recv, recvOk = r[0], r[1].(*Term).K != 0
				break
			}
		} else if len(c.buf) < c.cap && !c.closed {
			chosen = i
			m.chanSend(c, fr.get(st.Send))
			break
		}
	}
	if chosen < 0 && instr.Blocking {
		panic(abort{"unsupported", "select would block (no scheduler in this build)"})
	}
	r := tuple{m.T.Const(64, uint64(int64(chosen))), m.T.Bool(recvOk)}
	for i, st := range instr.States {
		if st.Dir == types.RecvOnly {
			if i == chosen && recvOk {
				r = append(r, recv)
			} else {
				r = append(r, m.zero(st.Chan.Type().Underlying().(*types.Chan).Elem()))
			}
		}
	}
	return r
}
