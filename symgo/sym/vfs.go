package sym

import (
	"go/token"
	"go/types"
)

// A small virtual file system for harnesses that exercise code reading/writing files:
// symSetFile(path, content) registers a file; os.Open/ReadFile/WriteFile/Stat and *os.File
// methods operate on it. Natively the harness API writes and reads real files instead.

type vfile struct {
	content  Str
	pos      int
	path     string
	writable bool
}

// Virtual clock: time.Now is a 64-bit nanosecond count (a term, so harnesses can advance it by
// symbolic amounts with symAdvanceClock); a time.Time produced here has wall = 0 and carries the
// count in ext; Since/Sub/After/Before/Equal are decided on that count. A file's modification
// time is the clock value at the moment it was last written.
const vclockStart = 1_000_000_000_000_000_000

func (m *Machine) now() *Term {
	if m.vclock == nil {
		m.vclock = m.T.Const(64, vclockStart)
	}
	return m.vclock
}

func (m *Machine) mkTime(ns *Term) value {
	t := m.zero(m.Prog.ImportedPackage("time").Type("Time").Type()).(structure)
	t[1] = ns
	return t
}

func timeNS(v value) *Term { return v.(structure)[1].(*Term) }

var opaqueFileInfo = types.NewNamed(types.NewTypeName(token.NoPos, nil, "symgo.fileInfo", nil), types.NewStruct(nil, nil), nil)

func (m *Machine) vfsGet(path Str) (Str, bool) {
	if !path.Concrete() {
		panic(unsupported("virtual file system: symbolic path"))
	}
	c, ok := m.vfiles[path.s]
	return c, ok
}

func (m *Machine) vfsSet(path Str, content Str) {
	if !path.Concrete() {
		panic(unsupported("virtual file system: symbolic path"))
	}
	if m.vfiles == nil {
		m.vfiles = map[string]Str{}
	}
	if m.vmtime == nil {
		m.vmtime = map[string]*Term{}
	}
	old, had := m.vfiles[path.s]
	oldT := m.vmtime[path.s]
	if m.journaling {
		m.journal = append(m.journal, undo{f: func() {
			if had {
				m.vfiles[path.s] = old
				m.vmtime[path.s] = oldT
			} else {
				delete(m.vfiles, path.s)
				delete(m.vmtime, path.s)
			}
		}})
	}
	m.vfiles[path.s] = content
	m.vmtime[path.s] = m.now()
}

// notExist builds &fs.PathError{Op: "open", Path: path, Err: syscall.ENOENT}, which os.IsNotExist
// and errors.Is(err, fs.ErrNotExist) recognise (their library code is interpreted).
func (m *Machine) notExist(fr *frame, path string) iface {
	fsp := m.Prog.ImportedPackage("io/fs")
	sp := m.Prog.ImportedPackage("syscall")
	if fsp == nil || sp == nil {
		return m.errorsNew(fr, "open "+path+": no such file or directory")
	}
	pt := fsp.Type("PathError").Type()
	et := sp.Type("Errno").Type()
	var pe value = m.zero(pt)
	st := pe.(structure)
	st[0] = conc("open")
	st[1] = conc(path)
	st[2] = iface{t: et, v: m.T.Const(m.width(et), 2)} // ENOENT
	return iface{t: types.NewPointer(pt), v: &pe}
}

func registerVFS(m *Machine) {
	in := m.intrinsics
	in["sym:symSetFile"] = func(m *Machine, fr *frame, a []value) value {
		m.vfsSet(a[0].(Str), a[1].(Str))
		return nil
	}
	in["sym:symGetFile"] = func(m *Machine, fr *frame, a []value) value {
		c, ok := m.vfsGet(a[0].(Str))
		return tuple{c, m.T.Bool(ok)}
	}
	in["os.ReadFile"] = func(m *Machine, fr *frame, a []value) value {
		c, ok := m.vfsGet(a[0].(Str))
		if !ok {
			return tuple{[]value(nil), m.notExist(fr, a[0].(Str).s)}
		}
		return tuple{m.bytesToValues(m.strBytes(c)), iface{}}
	}
	in["os.WriteFile"] = func(m *Machine, fr *frame, a []value) value {
		m.vfsSet(a[0].(Str), m.mkStr(valuesToBytes(a[1].([]value))))
		return iface{}
	}
	in["os.Open"] = func(m *Machine, fr *frame, a []value) value {
		c, ok := m.vfsGet(a[0].(Str))
		if !ok {
			return tuple{(*value)(nil), m.notExist(fr, a[0].(Str).s)}
		}
		var v value = opaque{"vfile", &vfile{content: c, path: a[0].(Str).s}}
		return tuple{&v, iface{}}
	}
	in["(*os.File).Read"] = func(m *Machine, fr *frame, a []value) value {
		f := (*a[0].(*value)).(opaque).data.(*vfile)
		p := a[1].([]value)
		bs := m.strBytes(f.content)
		if f.pos >= len(bs) {
			return tuple{m.T.Const(64, 0), m.ioEOF()}
		}
		n := len(bs) - f.pos
		if n > len(p) {
			n = len(p)
		}
		for i := 0; i < n; i++ {
			m.store(&p[i], bs[f.pos+i])
		}
		old := f.pos
		f.pos += n
		if m.journaling {
			m.journal = append(m.journal, undo{f: func() { f.pos = old }})
		}
		return tuple{m.T.Const(64, uint64(n)), iface{}}
	}
	// os.IsNotExist: true exactly for the errors notExist builds (package os is not initialised in
	// the engine, so the library version cannot read os.ErrNotExist)
	in["os.IsNotExist"] = func(m *Machine, fr *frame, a []value) value {
		e := a[0].(iface)
		if e.t == nil {
			return m.T.False
		}
		if pt, ok := e.t.(*types.Pointer); ok && pt.Elem().String() == "io/fs.PathError" {
			if p, _ := e.v.(*value); p != nil {
				if inner, ok := (*p).(structure)[2].(iface); ok && inner.t != nil && inner.t.String() == "syscall.Errno" {
					if c, ok := inner.v.(*Term); ok && c.IsConst() && c.K == 2 {
						return m.T.True
					}
				}
			}
		}
		return m.T.False
	}
	// syscall.Errno.Error reads a table of package syscall, which is not initialised in the engine
	in["(syscall.Errno).Error"] = func(m *Machine, fr *frame, a []value) value {
		if c, ok := a[0].(*Term); ok && c.IsConst() && c.K == 2 {
			return conc("no such file or directory")
		}
		return conc("errno")
	}
	in["os.Remove"] = func(m *Machine, fr *frame, a []value) value {
		p := a[0].(Str)
		if _, ok := m.vfsGet(p); !ok {
			if _, isLink := m.vlinks[p.s]; !isLink {
				return m.notExist(fr, p.s)
			}
		}
		m.intrinsics["sym:symRemoveFile"](m, fr, a)
		return iface{}
	}
	// os.OpenFile for writing: O_CREATE / O_TRUNC / O_APPEND are honoured; the handle writes at its
	// position, overwriting and extending the content (what is beyond the written bytes stays)
	in["os.OpenFile"] = func(m *Machine, fr *frame, a []value) value {
		p := a[0].(Str)
		flag := int(m.concretize(a[1].(*Term)))
		const oCREATE, oTRUNC, oAPPEND = 0x40, 0x200, 0x400
		c, ok := m.vfsGet(p)
		if !ok {
			if flag&oCREATE == 0 {
				return tuple{(*value)(nil), m.notExist(fr, p.s)}
			}
			c = Str{}
			m.vfsSet(p, c)
		}
		if flag&oTRUNC != 0 {
			c = Str{}
			m.vfsSet(p, c)
		}
		f := &vfile{content: c, path: p.s, writable: flag&3 != 0}
		if flag&oAPPEND != 0 {
			f.pos = c.Len()
		}
		var v value = opaque{"vfile", f}
		return tuple{&v, iface{}}
	}
	in["(*os.File).Write"] = func(m *Machine, fr *frame, a []value) value {
		f := (*a[0].(*value)).(opaque).data.(*vfile)
		if !f.writable {
			return tuple{m.T.Const(64, 0), m.errorsNew(fr, "write "+f.path+": bad file descriptor")}
		}
		data := valuesToBytes(a[1].([]value))
		cur, _ := m.vfsGet(conc(f.path))
		bs := append([]*Term(nil), m.strBytes(cur)...)
		for i, b := range data {
			if f.pos+i < len(bs) {
				bs[f.pos+i] = b
			} else {
				bs = append(bs, b)
			}
		}
		old := f.pos
		f.pos += len(data)
		if m.journaling {
			m.journal = append(m.journal, undo{f: func() { f.pos = old }})
		}
		m.vfsSet(conc(f.path), m.mkStr(bs))
		return tuple{m.T.Const(64, uint64(len(data))), iface{}}
	}
	in["(*os.File).Sync"] = func(m *Machine, fr *frame, a []value) value { return iface{} }
	in["(*os.File).Close"] = func(m *Machine, fr *frame, a []value) value { return iface{} }
	in["(*os.File).Stat"] = func(m *Machine, fr *frame, a []value) value {
		f := (*a[0].(*value)).(opaque).data.(*vfile)
		return tuple{iface{t: opaqueFileInfo, v: opaque{"fileinfo", f.path}}, iface{}}
	}
	in["os.Stat"] = func(m *Machine, fr *frame, a []value) value {
		if _, ok := m.vfsGet(a[0].(Str)); !ok {
			return tuple{iface{}, m.notExist(fr, a[0].(Str).s)}
		}
		return tuple{iface{t: opaqueFileInfo, v: opaque{"fileinfo", a[0].(Str).s}}, iface{}}
	}
	in["opaque:fileinfo.ModTime"] = func(m *Machine, fr *frame, a []value) value {
		path, _ := a[0].(opaque).data.(string)
		if t, ok := m.vmtime[path]; ok {
			return m.mkTime(t)
		}
		return m.mkTime(m.T.Const(64, vclockStart))
	}
	in["opaque:fileinfo.Size"] = func(m *Machine, fr *frame, a []value) value { return m.T.Const(64, 0) }
	in["opaque:fileinfo.IsDir"] = func(m *Machine, fr *frame, a []value) value { return m.T.False }
	in["time.Now"] = func(m *Machine, fr *frame, a []value) value { return m.mkTime(m.now()) }
	in["time.Since"] = func(m *Machine, fr *frame, a []value) value { return m.T.Bin(OpSub, m.now(), timeNS(a[0])) }
	in["(time.Time).Sub"] = func(m *Machine, fr *frame, a []value) value { return m.T.Bin(OpSub, timeNS(a[0]), timeNS(a[1])) }
	in["(time.Time).After"] = func(m *Machine, fr *frame, a []value) value { return m.T.Bin(OpSlt, timeNS(a[1]), timeNS(a[0])) }
	in["(time.Time).Before"] = func(m *Machine, fr *frame, a []value) value { return m.T.Bin(OpSlt, timeNS(a[0]), timeNS(a[1])) }
	in["(time.Time).Equal"] = func(m *Machine, fr *frame, a []value) value { return m.T.Eq(timeNS(a[0]), timeNS(a[1])) }
	in["(time.Time).UnixNano"] = func(m *Machine, fr *frame, a []value) value { return timeNS(a[0]) }
	in["(time.Time).UnixMilli"] = func(m *Machine, fr *frame, a []value) value {
		return m.T.Bin(OpUDiv, timeNS(a[0]), m.T.Const(64, 1_000_000))
	}
	in["(time.Time).Unix"] = func(m *Machine, fr *frame, a []value) value {
		return m.T.Bin(OpUDiv, timeNS(a[0]), m.T.Const(64, 1_000_000_000))
	}
	in["sym:symAdvanceClock"] = func(m *Machine, fr *frame, a []value) value {
		old := m.now()
		if m.journaling {
			m.journal = append(m.journal, undo{f: func() { m.vclock = old }})
		}
		m.vclock = m.T.Bin(OpAdd, old, a[0].(*Term))
		return nil
	}
	in["sym:symRemoveFile"] = func(m *Machine, fr *frame, a []value) value {
		p := a[0].(Str)
		if !p.Concrete() {
			panic(unsupported("virtual file system: symbolic path"))
		}
		oldC, hadC := m.vfiles[p.s]
		oldT := m.vmtime[p.s]
		oldL, hadL := m.vlinks[p.s]
		if m.journaling {
			m.journal = append(m.journal, undo{f: func() {
				if hadC {
					m.vfiles[p.s] = oldC
					m.vmtime[p.s] = oldT
				}
				if hadL {
					m.vlinks[p.s] = oldL
				}
			}})
		}
		delete(m.vfiles, p.s)
		delete(m.vmtime, p.s)
		delete(m.vlinks, p.s)
		return nil
	}
	in["sym:symSetSymlink"] = func(m *Machine, fr *frame, a []value) value {
		from, to := a[0].(Str), a[1].(Str)
		if !from.Concrete() || !to.Concrete() {
			panic(unsupported("virtual file system: symbolic symlink path"))
		}
		if m.vlinks == nil {
			m.vlinks = map[string]string{}
		}
		old, had := m.vlinks[from.s]
		if m.journaling {
			m.journal = append(m.journal, undo{f: func() {
				if had {
					m.vlinks[from.s] = old
				} else {
					delete(m.vlinks, from.s)
				}
			}})
		}
		m.vlinks[from.s] = to.s
		return nil
	}
	in["os.TempDir"] = func(m *Machine, fr *frame, a []value) value { return conc("/tmp") }
	// file-level symbolic links registered with symSetSymlink are followed (up to 8 levels);
	// links on directory components are not modelled
	in["path/filepath.EvalSymlinks"] = func(m *Machine, fr *frame, a []value) value {
		p := a[0].(Str)
		if p.Concrete() {
			for i := 0; i < 8; i++ {
				to, ok := m.vlinks[p.s]
				if !ok {
					break
				}
				p = conc(to)
			}
		}
		return tuple{p, iface{}}
	}
	in["path/filepath.Abs"] = func(m *Machine, fr *frame, a []value) value {
		p := a[0].(Str)
		if p.Concrete() && len(p.s) > 0 && p.s[0] == '/' {
			return tuple{p, iface{}}
		}
		return tuple{m.strConcat(conc("/cwd/"), p), iface{}}
	}
	in["runtime.Caller"] = func(m *Machine, fr *frame, a []value) value {
		skip := int(m.concretize(a[0].(*Term)))
		f := fr.caller // the function that called runtime.Caller
		for i := 0; i < skip && f != nil; i++ {
			f = f.caller
		}
		if f == nil || f.fn == nil {
			return tuple{m.T.Const(64, 0), Str{}, m.T.Const(64, 0), m.T.False}
		}
		pos := m.Prog.Fset.Position(f.fn.Pos())
		return tuple{m.T.Const(64, 1), conc(pos.Filename), m.T.Const(64, uint64(pos.Line)), m.T.True}
	}
}
