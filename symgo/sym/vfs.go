package sym

import (
	"go/token"
	"go/types"
)

// A small virtual file system for harnesses that exercise code reading/writing files:
// symSetFile(path, content) registers a file; os.Open/ReadFile/WriteFile/Stat and *os.File
// methods operate on it. Natively the harness API writes and reads real files instead.

type vfile struct {
	content Str
	pos     int
}

var opaqueFileInfo = types.NewNamed(types.NewTypeName(token.NoPos, nil, "symgo.fileInfo", nil), types.NewStruct(nil, nil), nil)

func (m *Machine) vfsGet(path Str) (Str, bool) {
	if !path.Concrete() {
		panic(unsupported("virtual file system: symbolic path"))
	}
	c, ok := m.vfiles[path.s]
	return c, ok
}

func (m *Machine) vfsSet(path Str, content Str) {
	if !path.Concrete() {
		panic(unsupported("virtual file system: symbolic path"))
	}
	if m.vfiles == nil {
		m.vfiles = map[string]Str{}
	}
	old, had := m.vfiles[path.s]
	if m.journaling {
		m.journal = append(m.journal, undo{f: func() {
			if had {
				m.vfiles[path.s] = old
			} else {
				delete(m.vfiles, path.s)
			}
		}})
	}
	m.vfiles[path.s] = content
}

func (m *Machine) notExist(fr *frame, path string) iface {
	return m.errorsNew(fr, "open "+path+": no such file or directory")
}

func registerVFS(m *Machine) {
	in := m.intrinsics
	in["sym:symSetFile"] = func(m *Machine, fr *frame, a []value) value {
		m.vfsSet(a[0].(Str), a[1].(Str))
		return nil
	}
	in["sym:symGetFile"] = func(m *Machine, fr *frame, a []value) value {
		c, ok := m.vfsGet(a[0].(Str))
		return tuple{c, m.T.Bool(ok)}
	}
	in["os.ReadFile"] = func(m *Machine, fr *frame, a []value) value {
		c, ok := m.vfsGet(a[0].(Str))
		if !ok {
			return tuple{[]value(nil), m.notExist(fr, a[0].(Str).s)}
		}
		return tuple{m.bytesToValues(m.strBytes(c)), iface{}}
	}
	in["os.WriteFile"] = func(m *Machine, fr *frame, a []value) value {
		m.vfsSet(a[0].(Str), m.mkStr(valuesToBytes(a[1].([]value))))
		return iface{}
	}
	in["os.Open"] = func(m *Machine, fr *frame, a []value) value {
		c, ok := m.vfsGet(a[0].(Str))
		if !ok {
			return tuple{(*value)(nil), m.notExist(fr, a[0].(Str).s)}
		}
		var v value = opaque{"vfile", &vfile{content: c}}
		return tuple{&v, iface{}}
	}
	in["(*os.File).Read"] = func(m *Machine, fr *frame, a []value) value {
		f := (*a[0].(*value)).(opaque).data.(*vfile)
		p := a[1].([]value)
		bs := m.strBytes(f.content)
		if f.pos >= len(bs) {
			return tuple{m.T.Const(64, 0), m.ioEOF()}
		}
		n := len(bs) - f.pos
		if n > len(p) {
			n = len(p)
		}
		for i := 0; i < n; i++ {
			m.store(&p[i], bs[f.pos+i])
		}
		old := f.pos
		f.pos += n
		if m.journaling {
			m.journal = append(m.journal, undo{f: func() { f.pos = old }})
		}
		return tuple{m.T.Const(64, uint64(n)), iface{}}
	}
	in["(*os.File).Close"] = func(m *Machine, fr *frame, a []value) value { return iface{} }
	in["(*os.File).Stat"] = func(m *Machine, fr *frame, a []value) value {
		return tuple{iface{t: opaqueFileInfo, v: opaque{"fileinfo", nil}}, iface{}}
	}
	in["os.Stat"] = func(m *Machine, fr *frame, a []value) value {
		if _, ok := m.vfsGet(a[0].(Str)); !ok {
			return tuple{iface{}, m.notExist(fr, a[0].(Str).s)}
		}
		return tuple{iface{t: opaqueFileInfo, v: opaque{"fileinfo", nil}}, iface{}}
	}
	zeroTime := func(m *Machine) value {
		return m.zero(m.Prog.ImportedPackage("time").Type("Time").Type())
	}
	in["opaque:fileinfo.ModTime"] = func(m *Machine, fr *frame, a []value) value { return zeroTime(m) }
	in["opaque:fileinfo.Size"] = func(m *Machine, fr *frame, a []value) value { return m.T.Const(64, 0) }
	in["opaque:fileinfo.IsDir"] = func(m *Machine, fr *frame, a []value) value { return m.T.False }
	in["time.Now"] = func(m *Machine, fr *frame, a []value) value { return zeroTime(m) }
	in["time.Since"] = func(m *Machine, fr *frame, a []value) value { return m.T.Const(64, 0) }
	in["os.TempDir"] = func(m *Machine, fr *frame, a []value) value { return conc("/tmp") }
	in["path/filepath.EvalSymlinks"] = func(m *Machine, fr *frame, a []value) value { return tuple{a[0], iface{}} }
	in["path/filepath.Abs"] = func(m *Machine, fr *frame, a []value) value {
		p := a[0].(Str)
		if p.Concrete() && len(p.s) > 0 && p.s[0] == '/' {
			return tuple{p, iface{}}
		}
		return tuple{m.strConcat(conc("/cwd/"), p), iface{}}
	}
	in["runtime.Caller"] = func(m *Machine, fr *frame, a []value) value {
		skip := int(m.concretize(a[0].(*Term)))
		f := fr.caller // the function that called runtime.Caller
		for i := 0; i < skip && f != nil; i++ {
			f = f.caller
		}
		if f == nil || f.fn == nil {
			return tuple{m.T.Const(64, 0), Str{}, m.T.Const(64, 0), m.T.False}
		}
		pos := m.Prog.Fset.Position(f.fn.Pos())
		return tuple{m.T.Const(64, 1), conc(pos.Filename), m.T.Const(64, uint64(pos.Line)), m.T.True}
	}
}
