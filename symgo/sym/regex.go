package sym

import (
	"regexp/syntax"
	"sort"
	"unicode"
)

// compiledRegexp is the opaque payload of a *regexp.Regexp value.
type compiledRegexp struct {
	pattern string
	prog    *syntax.Prog
}

func compileRegexp(pattern string) (*compiledRegexp, error) {
	re, err := syntax.Parse(pattern, syntax.Perl)
	if err != nil {
		return nil, err
	}
	prog, err := syntax.Compile(re.Simplify())
	if err != nil {
		return nil, err
	}
	return &compiledRegexp{pattern: pattern, prog: prog}, nil
}

// byteMatch returns the condition under which byte b is accepted by a rune instruction.
// Only ASCII ranges are supported; a range reaching above 0x7F is reported through ok=false
// unless it is the tail of a class whose ASCII part is what matters (never the case for
// positive ASCII classes, which is all the engine accepts).
func (m *Machine) byteMatch(inst *syntax.Inst, b *Term) (*Term, bool) {
	switch inst.Op {
	case syntax.InstRuneAny:
		// byte-level: exact when '.' stands under a repetition (every byte sequence of length
		// >= 1 decodes to >= 1 runes, invalid bytes decode to U+FFFD which '.' matches)
		m.IntrHits["regexp:any-rune-matched-bytewise"]++
		return m.T.True, true
	case syntax.InstRuneAnyNotNL:
		m.IntrHits["regexp:any-rune-matched-bytewise"]++
		return m.T.Not(m.T.Eq(b, m.T.Const(8, '\n'))), true
	}
	runes := inst.Rune
	res := m.T.False
	addRange := func(lo, hi rune) bool {
		if hi > 0x7F {
			return false
		}
		var c *Term
		if lo == hi {
			c = m.T.Eq(b, m.T.Const(8, uint64(lo)))
		} else {
			c = m.T.And(m.T.Bin(OpUle, m.T.Const(8, uint64(lo)), b), m.T.Bin(OpUle, b, m.T.Const(8, uint64(hi))))
		}
		res = m.T.Or(res, c)
		return true
	}
	if len(runes) == 1 {
		r := runes[0]
		if !addRange(r, r) {
			return nil, false
		}
		if syntax.Flags(inst.Arg)&syntax.FoldCase != 0 {
			for f := unicode.SimpleFold(r); f != r; f = unicode.SimpleFold(f) {
				if f <= 0x7F {
					addRange(f, f)
				}
			}
		}
		return res, true
	}
	for i := 0; i+1 < len(runes); i += 2 {
		if !addRange(runes[i], runes[i+1]) {
			return nil, false
		}
	}
	return res, true
}

func isWordByte(m *Machine, b *Term) *Term {
	rng := func(lo, hi uint64) *Term {
		return m.T.And(m.T.Bin(OpUle, m.T.Const(8, lo), b), m.T.Bin(OpUle, b, m.T.Const(8, hi)))
	}
	return m.T.Or(m.T.Or(rng('a', 'z'), rng('A', 'Z')), m.T.Or(rng('0', '9'), m.T.Eq(b, m.T.Const(8, '_'))))
}

// regexMatch builds the Boolean term "the (unanchored) regexp matches the byte vector".
func (m *Machine) regexMatch(cr *compiledRegexp, bs []*Term) *Term {
	prog := cr.prog
	n := len(bs)
	emptyCond := func(op syntax.EmptyOp, pos int) *Term {
		c := m.T.True
		if op&syntax.EmptyBeginText != 0 && pos != 0 {
			return m.T.False
		}
		if op&syntax.EmptyEndText != 0 && pos != n {
			return m.T.False
		}
		if op&syntax.EmptyBeginLine != 0 && pos != 0 {
			c = m.T.And(c, m.T.Eq(bs[pos-1], m.T.Const(8, '\n')))
		}
		if op&syntax.EmptyEndLine != 0 && pos != n {
			c = m.T.And(c, m.T.Eq(bs[pos], m.T.Const(8, '\n')))
		}
		if op&(syntax.EmptyWordBoundary|syntax.EmptyNoWordBoundary) != 0 {
			before, after := m.T.False, m.T.False
			if pos > 0 {
				before = isWordByte(m, bs[pos-1])
			}
			if pos < n {
				after = isWordByte(m, bs[pos])
			}
			boundary := m.T.Not(m.T.Eq(before, after))
			if op&syntax.EmptyWordBoundary != 0 {
				c = m.T.And(c, boundary)
			}
			if op&syntax.EmptyNoWordBoundary != 0 {
				c = m.T.And(c, m.T.Not(boundary))
			}
		}
		return c
	}
	var add func(set map[uint32]*Term, pc uint32, cond *Term, pos int, onPath map[uint32]bool)
	add = func(set map[uint32]*Term, pc uint32, cond *Term, pos int, onPath map[uint32]bool) {
		if cond == m.T.False || onPath[pc] {
			return
		}
		inst := &prog.Inst[pc]
		switch inst.Op {
		case syntax.InstFail:
			return
		case syntax.InstAlt, syntax.InstAltMatch:
			onPath[pc] = true
			add(set, inst.Out, cond, pos, onPath)
			add(set, inst.Arg, cond, pos, onPath)
			delete(onPath, pc)
			return
		case syntax.InstNop, syntax.InstCapture:
			onPath[pc] = true
			add(set, inst.Out, cond, pos, onPath)
			delete(onPath, pc)
			return
		case syntax.InstEmptyWidth:
			onPath[pc] = true
			add(set, inst.Out, m.T.And(cond, emptyCond(syntax.EmptyOp(inst.Arg), pos)), pos, onPath)
			delete(onPath, pc)
			return
		}
		if old, ok := set[pc]; ok {
			set[pc] = m.T.Or(old, cond)
		} else {
			set[pc] = cond
		}
	}
	matched := m.T.False
	cur := map[uint32]*Term{}
	for pos := 0; pos <= n; pos++ {
		add(cur, uint32(prog.Start), m.T.True, pos, map[uint32]bool{})
		next := map[uint32]*Term{}
		pcs := make([]int, 0, len(cur))
		for pc := range cur {
			pcs = append(pcs, int(pc))
		}
		sort.Ints(pcs)
		for _, pci := range pcs {
			pc := uint32(pci)
			cond := cur[pc]
			inst := &prog.Inst[pc]
			switch inst.Op {
			case syntax.InstMatch:
				matched = m.T.Or(matched, cond)
			case syntax.InstRune, syntax.InstRune1, syntax.InstRuneAny, syntax.InstRuneAnyNotNL:
				if pos == n {
					continue
				}
				bm, ok := m.byteMatch(inst, bs[pos])
				if !ok {
					panic(unsupported("regexp " + cr.pattern + ": non-ASCII or negated class"))
				}
				add(next, inst.Out, m.T.And(cond, bm), pos+1, map[uint32]bool{})
			}
		}
		cur = next
	}
	return matched
}
